"""AST interpreter over mixed concrete / symbolic values (one path per run)."""
import ast
import builtins
import dataclasses
import inspect
import os
import struct
import types
import z3

from .zutil import *
from .run import Run, View, Unsupported, PathEnd
from .values import *

REPO_SRC = os.environ.get('PYVC_REPO_SRC', '/repo/src')


def is_exc_class(c):
    return inspect.isclass(c) and issubclass(c, BaseException)


class Interp:
    def __init__(self, run: Run, registry, source_index, policy=None):
        self.run = run
        self.reg = registry
        self.src = source_index
        self.policy = policy or {}
        self.inlined = set()
        self.called_contracts = set()
        self.call_stack = []
        self.loop_specs = {}          # (qualname, ordinal) -> spec, set by the verifier for the function under proof
        self.unroll = 0               # >0: ignore loop specs, unroll that many iterations (counterexample search)
        self.top_qualname = None
        self.max_depth = 40

    # ------------------------------------------------------------------ helpers
    def raise_(self, cls, *args, node=None):
        raise PyExc(cls, args, getattr(node, 'lineno', None), self.where())

    def where(self):
        return self.call_stack[-1] if self.call_stack else ''

    def fullname(self, f):
        if f.real is not None:
            return f'{f.real.__module__}.{f.real.__qualname__}'
        return f.qualname

    def truth(self, v):
        if isinstance(v, dict) and getattr(v, 'sym', None) is not None:
            return v.truth(self)
        if isinstance(v, bool) or v is None or isinstance(v, (int, str, float, list, dict, set, tuple, frozenset)):
            return bool(v)
        if is_symbool(v):
            return v
        if is_symint(v):
            return v != 0
        if isinstance(v, View):
            return simp(zint(v.length) != 0)
        if isinstance(v, OptInt):
            return And(Not(v.isnone), zint(v.val) != 0)
        if isinstance(v, SymStr):
            if v.length is None:
                raise Unsupported('truth of opaque string')
            return simp(zint(v.length) != 0)
        if isinstance(v, (SymObj, Opaque)):
            cls = v.cls if isinstance(v, SymObj) else None
            if cls is not None and (hasattr(cls, '__len__') or '__bool__' in dir(cls) and cls.__bool__ is not object.__bool__):
                if hasattr(cls, '__bool__') and getattr(cls, '__bool__', None) is not None:
                    pass
                if hasattr(cls, '__len__'):
                    raise Unsupported(f'truth of {v} with __len__')
            return True
        if hasattr(v, 'truth'):
            return v.truth(self)
        if isinstance(v, (bytes, bytearray)):
            return len(v) != 0
        return bool(v)

    def branch(self, v, label=''):
        return self.run.branch(self.truth(v), label)

    # ------------------------------------------------------------------ expressions
    def eval(self, node, fr):
        m = getattr(self, 'e_' + type(node).__name__, None)
        if m is None:
            raise Unsupported(f'expression {type(node).__name__} at L{node.lineno}')
        return m(node, fr)

    def e_Constant(self, n, fr):
        v = n.value
        if isinstance(v, bytes):
            return self.run.new_bytes(v, 'bytes')
        return v

    def e_Name(self, n, fr):
        try:
            return fr.lookup(n.id)
        except NameError:
            self.raise_(NameError, n.id, node=n)

    def e_Tuple(self, n, fr):
        out = []
        for e in n.elts:
            if isinstance(e, ast.Starred):
                out.extend(self.iterate(self.eval(e.value, fr), n))
            else:
                out.append(self.eval(e, fr))
        return tuple(out)

    def e_List(self, n, fr):
        return list(self.e_Tuple(n, fr))

    def e_Set(self, n, fr):
        return set(self.eval(e, fr) for e in n.elts)

    def e_Dict(self, n, fr):
        from .symseq import LazyDict
        d = LazyDict()
        for k, v in zip(n.keys, n.values):
            if k is None:
                d.update(self.eval(v, fr))
            else:
                d[self.eval(k, fr)] = self.eval(v, fr)
        return d

    def e_JoinedStr(self, n, fr):
        from . import models as _m
        if _m.text_mode(self):
            parts = []
            for v in n.values:
                if isinstance(v, ast.Constant):
                    parts.append(v.value)
                else:
                    spec = self.eval(v.format_spec, fr) if v.format_spec is not None else None
                    parts.append((self.eval(v.value, fr), spec, v.conversion))
            r = _m.TEXT_HOOK.fstring(self, parts, n)
            if r is not NotImplemented:
                return r
            out = ''
            for p in parts:
                out += p if isinstance(p, str) else (format(p[0], p[1] or '') if isinstance(p[0], (str, int)) and not isinstance(p[0], bool) and p[2] == -1 else '<?>')
            return out
        out = ''
        for v in n.values:
            if isinstance(v, ast.Constant):
                out += v.value
            else:
                x = self.eval(v.value, fr)
                if isinstance(x, (str, int)) and not isinstance(x, bool) and v.format_spec is None and v.conversion == -1:
                    out += format(x)
                else:
                    x = simp(x) if is_sym(x) else x
                    if isinstance(x, (int, str)) and v.format_spec is not None:
                        spec = self.eval(v.format_spec, fr)
                        out += format(x, spec)
                    else:
                        out += '<?>'       # text used for messages only; keys built from symbolic parts are rejected below
                        self.run.notes.append(f'fstring with symbolic part at L{n.lineno}')
        return out

    def e_FormattedValue(self, n, fr):
        return self.e_JoinedStr(ast.JoinedStr(values=[n], lineno=n.lineno), fr)

    def e_UnaryOp(self, n, fr):
        v = self.eval(n.operand, fr)
        if isinstance(n.op, ast.Not):
            return Not(self.truth(v))
        if isinstance(n.op, ast.USub):
            return -v
        if isinstance(n.op, ast.UAdd):
            return +v
        if isinstance(n.op, ast.Invert) and isinstance(v, int):
            return ~v
        raise Unsupported(f'unary {type(n.op).__name__}')

    def e_BoolOp(self, n, fr):
        is_and = isinstance(n.op, ast.And)
        v = None
        for i, e in enumerate(n.values):
            v = self.eval(e, fr)
            if i == len(n.values) - 1:
                return v
            t = self.branch(v, f'L{n.lineno}.boolop')
            if is_and and not t:
                return v
            if not is_and and t:
                return v
        return v

    def e_IfExp(self, n, fr):
        if self.branch(self.eval(n.test, fr), f'L{n.lineno}.ifexp'):
            return self.eval(n.body, fr)
        return self.eval(n.orelse, fr)

    def e_NamedExpr(self, n, fr):
        v = self.eval(n.value, fr)
        self.assign_target(n.target, v, fr)
        return v

    def e_Lambda(self, n, fr):
        return self.make_function(n, fr, '<lambda>')

    def e_Await(self, n, fr):
        v = self.eval(n.value, fr)
        return self.await_value(v, n)

    def await_value(self, v, node=None):
        if isinstance(v, CoroVal):
            return v.thunk()
        if hasattr(v, 'await_'):
            return v.await_(self, node)
        raise Unsupported(f'await on {v!r}')

    def e_Attribute(self, n, fr):
        base = self.eval(n.value, fr)
        return self.getattr(base, n.attr, n)

    def e_Subscript(self, n, fr):
        base = self.eval(n.value, fr)
        if isinstance(n.slice, ast.Slice):
            lo = self.eval(n.slice.lower, fr) if n.slice.lower is not None else None
            hi = self.eval(n.slice.upper, fr) if n.slice.upper is not None else None
            if n.slice.step is not None:
                raise Unsupported('slice step')
            return self.getslice(base, lo, hi, n)
        idx = self.eval(n.slice, fr)
        return self.getitem(base, idx, n)

    def e_Compare(self, n, fr):
        left = self.eval(n.left, fr)
        result = True
        for i, (op, c) in enumerate(zip(n.ops, n.comparators)):
            right = self.eval(c, fr)
            r = self.compare(op, left, right, n)
            if i == len(n.ops) - 1:
                return r if result is True else And(result, r)
            if not self.branch(r, f'L{n.lineno}.cmpchain'):
                return False
            left = right
        return result

    def e_BinOp(self, n, fr):
        a = self.eval(n.left, fr)
        b = self.eval(n.right, fr)
        return self.binop(n.op, a, b, n)

    def e_Call(self, n, fr):
        # zero-argument super()
        if isinstance(n.func, ast.Name) and n.func.id == 'super' and not n.args:
            f = fr
            while f is not None and (f.fn is None or f.fn.defcls is None):
                f = f.parent
            if f is None:
                raise Unsupported('super() outside a method')
            argnames = f.fn.node.args.args
            return SuperProxy(f.fn.defcls, f.locals[argnames[0].arg])
        fn = self.eval(n.func, fr)
        args = []
        for a in n.args:
            if isinstance(a, ast.Starred):
                args.extend(self.iterate(self.eval(a.value, fr), n))
            else:
                args.append(self.eval(a, fr))
        kwargs = {}
        for k in n.keywords:
            if k.arg is None:
                d = self.eval(k.value, fr)
                if not isinstance(d, dict):
                    raise Unsupported('** of non-dict')
                kwargs.update(d)
            else:
                kwargs[k.arg] = self.eval(k.value, fr)
        return self.call(fn, args, kwargs, n)

    def e_ListComp(self, n, fr):
        ok, r = self._comp_hook(n, fr)
        if ok:
            return r
        # [bytes(c) for c in <list of byte strings of symbolic length>]: an element-wise copy.  The result has the same
        # length and element lengths; element CONTENTS are left unconstrained (over-approximation) and the source is
        # remembered in .snapshot_of
        if self._comp_first is not None and not n.generators[0].ifs and isinstance(n.generators[0].target, ast.Name) \
                and isinstance(n.elt, ast.Call) and isinstance(n.elt.func, ast.Name) and n.elt.func.id in ('bytes', 'bytearray') \
                and len(n.elt.args) == 1 and isinstance(n.elt.args[0], ast.Name) and n.elt.args[0].id == n.generators[0].target.id \
                and not n.elt.keywords:
            from .symseq import BufSeq
            src = self._comp_first[1]
            if isinstance(src, BufSeq) and not isinstance(simp(zint(src.n)), int):
                self._comp_first = None
                r = BufSeq(self.run, src.n, self.run.fresh_row(src.label + '_copy_cells'), z3.K(INT, z3.IntVal(0)), src.lens,
                           n.elt.func.id, False, src.label + '_copy')
                r.snapshot_of = src
                return r
        out = []
        self._comp(n.generators, 0, fr, lambda f: out.append(self.eval(n.elt, f)), n)
        return out

    def _comp_hook(self, n, fr):
        """a comprehension whose (single) iterable is an abstract collection: the collection's comp_ hook builds the abstract result"""
        self._comp_first = None
        if len(n.generators) == 1:
            src = self.eval(n.generators[0].iter, fr)
            if hasattr(src, 'comp_'):
                r = src.comp_(self, n, fr)
                if r is not NotImplemented:
                    return True, r
            self._comp_first = (n, src)          # evaluated once: _comp reuses it
        return False, None

    def e_SetComp(self, n, fr):
        ok, r = self._comp_hook(n, fr)
        if ok:
            return r
        out = set()
        self._comp(n.generators, 0, fr, lambda f: out.add(self.eval(n.elt, f)), n)
        return out

    def e_GeneratorExp(self, n, fr):
        return self.e_ListComp(n, fr)      # eager evaluation (stated: generator expressions are evaluated eagerly)

    def e_DictComp(self, n, fr):
        ok, r = self._comp_hook(n, fr)
        if ok:
            return r
        out = {}

        def add(f):
            k = self.eval(n.key, f)
            out[k] = self.eval(n.value, f)
        self._comp(n.generators, 0, fr, add, n)
        return out

    def _comp(self, gens, i, fr, emit, node):
        if i == 0:
            fr2 = Frame(fr.fn, fr, fr.globals)
            fr2.nonlocals = set()
            fr = fr2
        if i == len(gens):
            emit(fr)
            return
        g = gens[i]
        pre = getattr(self, '_comp_first', None)
        if i == 0 and pre is not None and pre[0] is node:
            src = pre[1]
            self._comp_first = None
        else:
            src = self.eval(g.iter, fr)
        for x in self.iterate(src, node):
            self.assign_target(g.target, x, fr)
            ok = True
            for c in g.ifs:
                if not self.branch(self.eval(c, fr), f'L{node.lineno}.compif'):
                    ok = False
                    break
            if ok:
                self._comp(gens, i + 1, fr, emit, node)

    def e_Starred(self, n, fr):
        raise Unsupported('starred')

    def e_Yield(self, n, fr):
        v = self.eval(n.value, fr) if n.value is not None else None
        f = fr
        while f is not None and f.fn is not None and '__yielded__' not in f.locals:
            f = f.parent
        if f is None or '__yielded__' not in f.locals:
            raise Unsupported('yield outside a modelled generator')
        f.locals['__yielded__'].append(v)
        hook = self.run.ghost.get('on_yield')
        if hook is not None:
            hook(self, v, n)
        return None

    # ------------------------------------------------------------------ operations
    def opt_unwrap(self, v, node=None):
        """use of an Optional[int] as a value: forks the None case"""
        if not isinstance(v, OptInt):
            return v
        if self.run.branch(v.isnone, 'optional.is_none'):
            return None
        return v.val

    def binop(self, op, a, b, node=None):
        if hasattr(a, 'binop_'):
            return a.binop_(self, op, b, node)
        if hasattr(b, 'rbinop_'):
            return b.rbinop_(self, op, a, node)
        if isinstance(op, ast.Sub) and hasattr(a, 'binop_sub'):
            return a.binop_sub(self, b)
        if isinstance(a, OptInt) or isinstance(b, OptInt):
            a, b = self.opt_unwrap(a, node), self.opt_unwrap(b, node)
        if isinstance(a, View) or isinstance(b, View):
            if isinstance(op, ast.Add) and isinstance(a, View) and isinstance(b, View):
                return self.concat(a, b)
            if isinstance(op, ast.Mult):
                raise Unsupported('bytes repetition')
            self.raise_(TypeError, 'unsupported operand for bytes', node=node)
        if not is_sym(a) and not is_sym(b):
            try:
                fn = {ast.Add: lambda: a + b, ast.Sub: lambda: a - b, ast.Mult: lambda: a * b,
                      ast.FloorDiv: lambda: a // b, ast.Mod: lambda: a % b, ast.Pow: lambda: a ** b,
                      ast.BitAnd: lambda: a & b, ast.BitOr: lambda: a | b, ast.BitXor: lambda: a ^ b,
                      ast.LShift: lambda: a << b, ast.RShift: lambda: a >> b, ast.Div: lambda: a / b}[type(op)]
            except KeyError:
                raise Unsupported(f'binop {type(op).__name__}')
            if isinstance(a, Opaque) or isinstance(b, Opaque):
                raise Unsupported('arithmetic on an opaque value (not a TypeError of the program: the value is unknown)')
            if a is None or b is None or isinstance(a, SymObj) or isinstance(b, SymObj):
                self.raise_(TypeError, f'unsupported operand type(s)', node=node)
            try:
                return fn()
            except TypeError as e:
                self.raise_(TypeError, str(e), node=node)
            except ZeroDivisionError as e:
                self.raise_(ZeroDivisionError, str(e), node=node)
        if isinstance(a, Opaque) or isinstance(b, Opaque):
            raise Unsupported('arithmetic on an opaque value (not a TypeError of the program: the value is unknown)')
        if a is None or b is None or isinstance(a, (str, SymObj, list, dict)) or isinstance(b, (str, SymObj, list, dict)):
            self.raise_(TypeError, 'unsupported operand type(s)', node=node)
        if isinstance(op, ast.Div) and is_symint(a) and isinstance(b, (int, float)) and not isinstance(b, bool) and b != 0:
            return Quot(a, b)
        za, zb = zint(a), zint(b)
        if isinstance(op, ast.Add):
            return za + zb
        if isinstance(op, ast.Sub):
            return za - zb
        if isinstance(op, ast.Mult):
            return za * zb
        if isinstance(op, ast.Pow):
            e = self.run.concretize(zb, 'pow.exp')
            if e < 0:
                raise Unsupported('negative exponent')
            base = simp(za)
            if isinstance(base, int):
                return base ** e
            r = z3.IntVal(1)
            for _ in range(e):
                r = r * za
            return r
        if isinstance(op, (ast.FloorDiv, ast.Mod)):
            if self.run.branch(zb == 0, 'div0'):
                self.raise_(ZeroDivisionError, 'division by zero', node=node)
            # python floor semantics; z3 int div is euclidean: agree when divisor > 0
            if not self.run.branch(zb > 0, 'divpos'):
                raise Unsupported('division by possibly negative symbolic divisor')
            return za / zb if isinstance(op, ast.FloorDiv) else za % zb
        if isinstance(op, ast.BitAnd):
            # x & (2^k - 1) for non-negative x
            m = simp(zb)
            x = za
            if isinstance(simp(za), int):
                m, x = simp(za), zb
            if isinstance(m, int) and m >= 0 and (m & (m + 1)) == 0:
                if self.run.branch(x >= 0, 'bitand.nonneg'):
                    return x % (m + 1)
                return x % (m + 1)       # python: negative & mask == (x mod 2^k) as well (two's complement)
            raise Unsupported('bit-and with non-mask operand')
        if isinstance(op, ast.RShift):
            k = self.run.concretize(zb, 'shift')
            return za / (2 ** k)
        if isinstance(op, ast.LShift):
            k = self.run.concretize(zb, 'shift')
            return za * (2 ** k)
        raise Unsupported(f'symbolic binop {type(op).__name__}')

    def concat(self, a, b):
        r = self.run
        n = simp(zint(a.length) + zint(b.length))
        kind = a.kind if a.kind != 'memoryview' else 'bytes'
        out = r.alloc_zero(n, kind)
        out.writable = kind == 'bytearray'
        r.copy_into(out, 0, a, a.length)
        r.copy_into(out, a.length, b, b.length)
        return out

    def bytes_eq(self, a, b):
        """content equality of two views as a term"""
        la, lb = simp(zint(a.length)), simp(zint(b.length))
        h = self.run.heap
        n = la if isinstance(la, int) else (lb if isinstance(lb, int) else None)
        if n is not None and n <= 64:
            conj = [Eq(a.length, b.length)]
            for k in range(n):
                self.run.read(a, k), self.run.read(b, k)
                conj.append(a.at(h, k) == b.at(h, k))
            return simp(And(*conj))
        k = z3.Int('k!eq')
        return z3.And(zint(a.length) == zint(b.length),
                      z3.ForAll([k], z3.Implies(z3.And(k >= 0, k < zint(a.length)), a.at(h, k) == b.at(h, k))))

    def compare(self, op, a, b, node=None):
        if isinstance(op, (ast.Is, ast.IsNot)) and (isinstance(a, OptInt) or isinstance(b, OptInt)):
            o, other = (a, b) if isinstance(a, OptInt) else (b, a)
            if other is None:
                return o.isnone if isinstance(op, ast.Is) else Not(o.isnone)
            r = o is other
            return r if isinstance(op, ast.Is) else not r
        if isinstance(a, OptInt) or isinstance(b, OptInt):
            a, b = self.opt_unwrap(a, node), self.opt_unwrap(b, node)
        if isinstance(op, (ast.Is, ast.IsNot)) and (hasattr(a, 'is_') or hasattr(b, 'is_')):
            r = a.is_(b) if hasattr(a, 'is_') else b.is_(a)
            return r if isinstance(op, ast.Is) else Not(r)
        if isinstance(op, (ast.Is, ast.IsNot)):
            if a is None or b is None or isinstance(a, bool) or isinstance(b, bool):
                r = a is b
            elif is_sym(a) or is_sym(b):
                if (a is None) != (b is None):
                    r = False
                else:
                    raise Unsupported('identity of symbolic values')
            else:
                r = a is b
            return r if isinstance(op, ast.Is) else not r
        if isinstance(op, (ast.In, ast.NotIn)):
            r = self.contains(b, a, node)
            return r if isinstance(op, ast.In) else Not(r)
        if isinstance(a, View) and isinstance(b, View):
            if isinstance(op, ast.Eq):
                return self.bytes_eq(a, b)
            if isinstance(op, ast.NotEq):
                return Not(self.bytes_eq(a, b))
            raise Unsupported('ordering of byte strings')
        if isinstance(a, View) or isinstance(b, View):
            if isinstance(op, ast.Eq):
                return False
            if isinstance(op, ast.NotEq):
                return True
            self.raise_(TypeError, 'ordering bytes with non-bytes', node=node)
        if isinstance(a, (list, tuple)) and isinstance(b, (list, tuple)) and isinstance(op, (ast.Eq, ast.NotEq)):
            if type(a) is not type(b):
                r = False
            elif len(a) != len(b):
                r = False
            else:
                r = And(*[self.compare(ast.Eq(), x, y, node) for x, y in zip(a, b)])
            return r if isinstance(op, ast.Eq) else Not(r)
        if hasattr(a, 'compare'):
            return a.compare(self, op, b, node)
        if hasattr(b, 'rcompare'):
            return b.rcompare(self, op, a, node)
        if not is_sym(a) and not is_sym(b):
            if isinstance(a, (SymObj, Opaque, ExcVal)) or isinstance(b, (SymObj, Opaque, ExcVal)):
                if isinstance(op, ast.Eq):
                    return self.obj_eq(a, b, node)
                if isinstance(op, ast.NotEq):
                    return Not(self.obj_eq(a, b, node))
                if isinstance(a, Opaque) or isinstance(b, Opaque):
                    raise Unsupported('ordering of an opaque value (the value is unknown)')
                self.raise_(TypeError, 'ordering objects', node=node)
            try:
                return {ast.Eq: lambda: a == b, ast.NotEq: lambda: a != b, ast.Lt: lambda: a < b,
                        ast.LtE: lambda: a <= b, ast.Gt: lambda: a > b, ast.GtE: lambda: a >= b}[type(op)]()
            except TypeError as e:
                self.raise_(TypeError, str(e), node=node)
        # symbolic on at least one side
        for x in (a, b):
            if x is None or isinstance(x, (str, SymObj, Opaque, list, dict, tuple, SymStr)):
                if isinstance(op, ast.Eq):
                    return False
                if isinstance(op, ast.NotEq):
                    return True
                if isinstance(x, Opaque):
                    raise Unsupported('ordering of an opaque value (the value is unknown)')
                self.raise_(TypeError, f"comparison not supported with {type(x).__name__}", node=node)
        if is_symbool(a) or is_symbool(b) or isinstance(a, bool) or isinstance(b, bool):
            if isinstance(op, (ast.Eq, ast.NotEq)) and (isinstance(a, bool) or is_symbool(a)) \
                    and (isinstance(b, bool) or is_symbool(b)):
                r = zbool(a) == zbool(b)
                return r if isinstance(op, ast.Eq) else z3.Not(r)
        za, zb = zint(a), zint(b)
        return {ast.Eq: lambda: za == zb, ast.NotEq: lambda: za != zb, ast.Lt: lambda: za < zb,
                ast.LtE: lambda: za <= zb, ast.Gt: lambda: za > zb, ast.GtE: lambda: za >= zb}[type(op)]()

    def obj_eq(self, a, b, node):
        if a is b:
            return True
        if isinstance(a, SymObj) and '__eq__' in _mro_dict(a.cls):
            f = _mro_dict(a.cls)['__eq__']
            return self.truth(self.call(f, [a, b], {}, node))
        return False

    def contains(self, cont, item, node=None):
        if hasattr(cont, 'contains'):
            return cont.contains(self, item, node)
        if isinstance(cont, (set, frozenset, dict, list, tuple)) and not is_sym(item) \
                and not isinstance(item, (View, SymObj, Opaque, SymStr)):
            if isinstance(cont, (list, tuple)) and any(is_sym(x) or isinstance(x, View) for x in cont):
                return Or(*[self.compare(ast.Eq(), item, x, node) for x in cont])
            try:
                return item in cont
            except TypeError as e:
                self.raise_(TypeError, str(e), node=node)
        if isinstance(cont, (set, frozenset, list, tuple)) or (isinstance(cont, dict) and is_sym(item)):
            keys = list(cont)
            return Or(*[self.compare(ast.Eq(), item, x, node) for x in keys])
        if isinstance(cont, str) and isinstance(item, str):
            return item in cont
        if isinstance(cont, dict):
            if isinstance(item, (View, SymObj, Opaque)):
                if isinstance(item, View):
                    self.raise_(TypeError, 'unhashable', node=node) if item.kind != 'bytes' else None
                    raise Unsupported('symbolic bytes key lookup')
                return any(item is k for k in cont)
        if isinstance(cont, SymObj) and '__contains__' in _mro_dict(cont.cls):
            return self.truth(self.call(_mro_dict(cont.cls)['__contains__'], [cont, item], {}, node))
        raise Unsupported(f'membership of {type(item).__name__} in {type(cont).__name__}')

    def norm_slice(self, length, lo, hi):
        """python slice normalisation (step 1): returns (start, n) with clamping and negative indices"""
        L = zint(length)

        def norm(x, default):
            if x is None:
                return default
            x = zint(x)
            x = z3.If(x < 0, x + L, x)
            return z3.If(x < 0, 0, z3.If(x > L, L, x))
        lo_, hi_ = norm(lo, z3.IntVal(0)), norm(hi, L)
        n = z3.If(hi_ > lo_, hi_ - lo_, 0)
        return simp(lo_), simp(n)

    def getslice(self, base, lo, hi, node=None):
        if hasattr(base, 'getslice'):
            return base.getslice(self, lo, hi, node)
        for x in (lo, hi):
            if x is not None and not isinstance(x, int) and not is_symint(x):
                self.raise_(TypeError, 'slice indices must be integers or None', node=node)
        if isinstance(base, View):
            s, n = self.norm_slice(base.length, lo, hi)
            if base.kind == 'memoryview':
                return View(base.cell, simp(base.start + s), n, 'memoryview', base.writable)
            # slicing bytes / bytearray copies
            out = self.run.alloc(n, base.kind, base.row(self.run.heap), base.kind == 'bytearray')
            out.start = simp(base.start + s)      # new cell holds a snapshot of the same row, window shifted
            return out
        if isinstance(base, (list, tuple, str)):
            if is_sym(lo) or is_sym(hi):
                lo = self.run.concretize(lo, 'slice.lo') if is_sym(lo) else lo
                hi = self.run.concretize(hi, 'slice.hi') if is_sym(hi) else hi
            return base[lo:hi]
        if base is None:
            self.raise_(TypeError, "'NoneType' object is not subscriptable", node=node)
        raise Unsupported(f'slice of {type(base).__name__}')

    def getitem(self, base, idx, node=None):
        if hasattr(base, 'getitem'):
            return base.getitem(self, idx, node)
        if isinstance(base, View):
            if not isinstance(idx, int) and not is_symint(idx):
                self.raise_(TypeError, 'byte indices must be integers', node=node)
            L = zint(base.length)
            i = zint(idx)
            if not self.run.branch(z3.And(i >= -L, i < L), f'L{getattr(node, "lineno", 0)}.index_ok'):
                self.raise_(IndexError, 'index out of range', node=node)
            eff = simp(z3.If(i < 0, i + L, i))
            return self.run.read(base, eff)
        if isinstance(base, (list, tuple, str)):
            if is_sym(idx):
                idx = self.run.concretize(idx, 'index')
            if not isinstance(idx, int):
                self.raise_(TypeError, 'indices must be integers', node=node)
            try:
                return base[idx]
            except IndexError:
                self.raise_(IndexError, 'index out of range', node=node)
        if isinstance(base, dict):
            if is_symint(idx) and all(isinstance(k, int) and not isinstance(k, bool) for k in base):
                # a symbolic integer key of a concrete dictionary: one path per key, KeyError otherwise
                for k in base:
                    if self.run.branch(zint(idx) == k, f'dictkey=={k}'):
                        return base[k]
                self.raise_(KeyError, 'key', node=node)
            if is_sym(idx) or isinstance(idx, (View, SymObj)):
                raise Unsupported('symbolic dict key')
            try:
                return base[idx]
            except KeyError:
                self.raise_(KeyError, idx, node=node)
            except TypeError as e:
                self.raise_(TypeError, str(e), node=node)
        if base is None:
            self.raise_(TypeError, "'NoneType' object is not subscriptable", node=node)
        if isinstance(base, SymObj) and '__getitem__' in _mro_dict(base.cls):
            return self.call(_mro_dict(base.cls)['__getitem__'], [base, idx], {}, node)
        if isinstance(base, type) or isinstance(base, types.GenericAlias):
            return base[idx]
        raise Unsupported(f'subscript of {type(base).__name__}')

    def setitem(self, base, idx, val, node=None):
        if hasattr(base, 'setitem'):
            return base.setitem(self, idx, val, node)
        if isinstance(base, View):
            if not base.writable:
                self.raise_(TypeError, 'cannot modify read-only memory', node=node)
            L = zint(base.length)
            i = zint(idx)
            if not self.run.branch(z3.And(i >= -L, i < L), f'L{getattr(node, "lineno", 0)}.index_ok'):
                self.raise_(IndexError, 'index out of range', node=node)
            if isinstance(val, View) or val is None or isinstance(val, (str, SymObj)):
                self.raise_(TypeError, 'an integer is required', node=node)
            v = zint(val)
            if not self.run.branch(z3.And(v >= 0, v <= 255), f'L{getattr(node, "lineno", 0)}.byte_ok'):
                self.raise_(ValueError, 'byte must be in range(0, 256)', node=node)
            eff = simp(z3.If(i < 0, i + L, i))
            self.run.write(base, eff, v)
            return
        if isinstance(base, list):
            if is_sym(idx):
                idx = self.run.concretize(idx, 'index')
            try:
                base[idx] = val
            except IndexError:
                self.raise_(IndexError, 'list assignment index out of range', node=node)
            return
        if isinstance(base, dict):
            if is_sym(idx) or isinstance(idx, (View, SymObj)):
                raise Unsupported('symbolic dict key')
            base[idx] = val
            return
        if base is None:
            self.raise_(TypeError, "'NoneType' object does not support item assignment", node=node)
        if isinstance(base, SymObj) and '__setitem__' in _mro_dict(base.cls):
            return self.call(_mro_dict(base.cls)['__setitem__'], [base, idx, val], {}, node)
        raise Unsupported(f'item assignment on {type(base).__name__}')

    def setslice(self, base, lo, hi, val, node=None):
        if isinstance(base, View):
            if not base.writable:
                self.raise_(TypeError, 'cannot modify read-only memory', node=node)
            if not isinstance(val, View):
                if isinstance(val, (bytes, bytearray)):
                    val = self.run.new_bytes(val)
                else:
                    self.raise_(TypeError, 'a bytes-like object is required', node=node)
            s, n = self.norm_slice(base.length, lo, hi)
            same = simp(zint(n) == zint(val.length))
            if base.kind == 'memoryview':
                if not self.run.branch(same, f'L{getattr(node, "lineno", 0)}.slice_len_eq'):
                    self.raise_(ValueError, 'memoryview assignment: lvalue and rvalue have different structures', node=node)
            else:
                # bytearray slice assignment may resize; the engine models only the same-length case
                self.run.oblige(f'{self.where()}#L{getattr(node, "lineno", 0)}.bytearray_slice_assign_keeps_length', same,
                                'engine restriction: bytearray resize on slice assignment is not modelled')
            src_heap = self.run.heap
            self.run.copy_into(base, s, val, n, src_heap)
            return
        if isinstance(base, list):
            base[lo:hi] = list(self.iterate(val, node))
            return
        if base is None:
            self.raise_(TypeError, "'NoneType' object does not support item assignment", node=node)
        raise Unsupported(f'slice assignment on {type(base).__name__}')

    def iterate(self, v, node=None):
        if hasattr(v, 'iterate'):
            return v.iterate(self, node)
        from .symseq import LazyDict
        if isinstance(v, LazyDict) and getattr(v, 'sym', None) is not None:
            # its python part holds only the keys written concretely on this path: iterating that would silently skip the
            # symbolic content (found by benign/C18-b3: `any(k not in known for k in rsv_dict)` evaluated to False)
            raise Unsupported('iteration over a dictionary with symbolic content outside a loop with a specification')
        if isinstance(v, (list, tuple, set, frozenset, dict, str, range)):
            return list(v)
        if isinstance(v, (types.GeneratorType, enumerate, zip, map, filter)) or type(v).__name__ in ('dict_items', 'dict_keys', 'dict_values', 'list_iterator', 'dict_itemiterator'):
            return list(v)
        if isinstance(v, View):
            n = simp(zint(v.length))
            if not isinstance(n, int):
                raise Unsupported('iteration over bytes of symbolic length')
            return [self.run.read(v, k) for k in range(n)]
        if v is None or isinstance(v, (int, bool)) or is_sym(v):
            self.raise_(TypeError, 'object is not iterable', node=node)
        if isinstance(v, SymObj) and '__iter__' in _mro_dict(v.cls):
            return self.iterate(self.call(_mro_dict(v.cls)['__iter__'], [v], {}, node), node)
        raise Unsupported(f'iteration over {type(v).__name__}')

    # ------------------------------------------------------------------ attributes
    def getattr(self, obj, name, node=None):
        run = self.run
        if isinstance(obj, SymObj):
            if name == '__dict__':
                return obj.d
            if name == '__class__':
                return obj.cls
            ca = _static_lookup(obj.cls, name)
            if ca is not _MISSING and _is_data_descriptor(ca):
                return self.descr_get(ca, obj, obj.cls, node)
            if name in obj.d:
                return obj.d[name]
            if ca is _MISSING:
                if '__getattr__' in _mro_dict(obj.cls):
                    return self.call(_mro_dict(obj.cls)['__getattr__'], [obj, name], {}, node)
                if not obj.complete and not name.startswith('__'):
                    # not an AttributeError of the program: the contract's (partial) instance does not say what this is
                    raise Unsupported(f'attribute {name!r} of {obj.cls.__name__} is not part of the instance state the contract supplies')
                self.raise_(AttributeError, f'{obj.cls.__name__} object has no attribute {name}', node=node)
            return self.descr_get(ca, obj, obj.cls, node)
        if isinstance(obj, Opaque):
            if name in obj.d:
                return obj.d[name]
            h = self.reg.opaque_attr(obj, name)
            if h is not None:
                return h
            raise Unsupported(f'attribute {name} of opaque {obj.typ}')
        if isinstance(obj, SuperProxy):
            cls = obj.self_.cls if isinstance(obj.self_, SymObj) else (obj.self_ if inspect.isclass(obj.self_) else type(obj.self_))
            mro = cls.__mro__
            i = mro.index(obj.defcls)
            for k in mro[i + 1:]:
                if name in k.__dict__:
                    a = k.__dict__[name]
                    if isinstance(a, classmethod):
                        return BoundMethod(a.__func__, cls)
                    if isinstance(a, staticmethod):
                        return a.__func__
                    if isinstance(a, types.FunctionType):
                        return BoundMethod(a, obj.self_)
                    if k is object:
                        return BoundMethod(getattr(object, name), obj.self_)
                    return a
            self.raise_(AttributeError, name, node=node)
        if isinstance(obj, View):
            return BoundMethod(('view', name), obj)
        if isinstance(obj, ExcVal):
            if name in obj.attrs:
                return obj.attrs[name]
            if name == 'args':
                return obj.args
            if name == '__class__':
                return obj.cls
            a = _static_lookup(obj.cls, name)
            if a is not _MISSING:
                return self.descr_get(a, obj, obj.cls, node)
            self.raise_(AttributeError, name, node=node)
        if isinstance(obj, SymStr):
            return BoundMethod(('symstr', name), obj)
        if is_sym(obj):
            if name in ('value',) and is_symint(obj):
                self.raise_(AttributeError, f"'int' object has no attribute '{name}'", node=node)
            return BoundMethod(('symint', name), obj)
        if isinstance(obj, InterpFunction):
            if name == '__name__':
                return obj.qualname.split('.')[-1]
            raise Unsupported(f'attribute {name} of function')
        if hasattr(obj, 'getattr_'):
            return obj.getattr_(self, name, node)
        if obj is None:
            self.raise_(AttributeError, f"'NoneType' object has no attribute '{name}'", node=node)
        # real python object
        key = (id(obj), name)
        if key in run.overlay:
            return run.overlay[key]
        if isinstance(obj, (list, dict, set, str, bytes, int, tuple, frozenset, types.ModuleType)) or inspect.isclass(obj):
            try:
                return getattr(obj, name)
            except AttributeError as e:
                self.raise_(AttributeError, str(e), node=node)
        # instance of a user class: emulate so that methods are interpreted and descriptors see overlays
        cls = type(obj)
        if (cls.__module__ or '').split('.')[0] in ('pyvc', 'contracts', 'spec', 'lemmas'):
            # a model object of the verifier itself: a missing attribute is a gap of the model, not an AttributeError of the code
            raise Unsupported(f'attribute {name!r} of the model object {cls.__name__} is not modelled')
        ca = _static_lookup(cls, name)
        inst = getattr(obj, '__dict__', {})
        if ca is not _MISSING and _is_data_descriptor(ca) and _in_repo_class(type(ca)):
            return self.descr_get(ca, obj, cls, node)
        if name in inst:
            return inst[name]
        if ca is _MISSING:
            try:
                return getattr(obj, name)
            except AttributeError as e:
                self.raise_(AttributeError, str(e), node=node)
        if isinstance(ca, (types.FunctionType, classmethod, staticmethod, property)) or _in_repo_class(type(ca)):
            return self.descr_get(ca, obj, cls, node)
        try:
            return getattr(obj, name)
        except AttributeError as e:
            self.raise_(AttributeError, str(e), node=node)

    def descr_get(self, a, obj, cls, node):
        if isinstance(a, types.FunctionType):
            return BoundMethod(a, obj)
        if isinstance(a, classmethod):
            return BoundMethod(a.__func__, cls)
        if isinstance(a, staticmethod):
            return a.__func__
        if isinstance(a, property):
            return self.call(a.fget, [obj], {}, node)
        g = _static_lookup(type(a), '__get__')
        if g is not _MISSING and isinstance(g, types.FunctionType):
            return self.call(g, [a, obj, cls], {}, node)
        if g is not _MISSING:
            if isinstance(obj, SymObj):
                raise Unsupported(f'native descriptor {type(a).__name__} on symbolic object')
            return a.__get__(obj, cls)
        return a

    def setattr(self, obj, name, val, node=None):
        if isinstance(obj, SymObj):
            if name == '__dict__':
                obj.d = val
                return
            ca = _static_lookup(obj.cls, name)
            if ca is not _MISSING and _is_data_descriptor(ca):
                s = _static_lookup(type(ca), '__set__')
                if isinstance(s, types.FunctionType):
                    self.call(s, [ca, obj, val], {}, node)
                    return
                if isinstance(ca, property):
                    if ca.fset is None:
                        self.raise_(AttributeError, "can't set attribute", node=node)
                    self.call(ca.fset, [obj, val], {}, node)
                    return
                raise Unsupported('native data descriptor set')
            obj.d[name] = val
            return
        if isinstance(obj, (Opaque,)):
            obj.d[name] = val
            return
        if isinstance(obj, ExcVal):
            obj.attrs[name] = val
            return
        if hasattr(obj, 'setattr_'):
            return obj.setattr_(self, name, val, node)
        if obj is None or isinstance(obj, (int, str, View)) or is_sym(obj):
            self.raise_(AttributeError, f'cannot set attribute {name}', node=node)
        # real object: never mutate it; write to the run-local overlay
        cls = type(obj)
        ca = _static_lookup(cls, name)
        if ca is not _MISSING and _is_data_descriptor(ca) and _in_repo_class(type(ca)):
            s = _static_lookup(type(ca), '__set__')
            if isinstance(s, types.FunctionType):
                raise Unsupported('descriptor set on a real (shared) object')
        self.run.overlay[(id(obj), name)] = val
        self.run.overlay_keep.append(obj)

    # ------------------------------------------------------------------ statements
    def exec_block(self, stmts, fr):
        for s in stmts:
            self.exec(s, fr)

    def exec(self, s, fr):
        m = getattr(self, 's_' + type(s).__name__, None)
        if m is None:
            raise Unsupported(f'statement {type(s).__name__} at L{s.lineno}')
        return m(s, fr)

    def s_Expr(self, s, fr):
        self.eval(s.value, fr)

    def s_Pass(self, s, fr):
        pass

    def s_Assert(self, s, fr):
        if not self.branch(self.eval(s.test, fr), f'L{s.lineno}.assert'):
            self.raise_(AssertionError, node=s)

    def s_Global(self, s, fr):
        fr.globals_decl.update(s.names)

    def s_Nonlocal(self, s, fr):
        fr.nonlocals.update(s.names)

    def s_Import(self, s, fr):
        for a in s.names:
            mod = __import__(a.name)
            if a.asname:
                import importlib
                mod = importlib.import_module(a.name)
            fr.assign(a.asname or a.name.split('.')[0], mod)

    def s_ImportFrom(self, s, fr):
        import importlib
        pkg = fr.globals.get('__package__')
        mod = importlib.import_module('.' * s.level + (s.module or ''), pkg) if s.level else importlib.import_module(s.module)
        for a in s.names:
            fr.assign(a.asname or a.name, getattr(mod, a.name))

    def s_Assign(self, s, fr):
        v = self.eval(s.value, fr)
        for t in s.targets:
            self.assign_target(t, v, fr)

    def s_AnnAssign(self, s, fr):
        if s.value is not None:
            self.assign_target(s.target, self.eval(s.value, fr), fr)

    def s_AugAssign(self, s, fr):
        t = s.target
        if isinstance(t, ast.Name):
            cur = self.e_Name(t, fr)
            v = self.eval(s.value, fr)
            if isinstance(cur, list) and isinstance(s.op, ast.Add):
                cur.extend(self.iterate(v, s))
                return
            fr.assign(t.id, self.binop(s.op, cur, v, s))
        elif isinstance(t, ast.Attribute):
            base = self.eval(t.value, fr)
            cur = self.getattr(base, t.attr, s)
            v = self.eval(s.value, fr)
            self.setattr(base, t.attr, self.binop(s.op, cur, v, s), s)
        elif isinstance(t, ast.Subscript):
            base = self.eval(t.value, fr)
            idx = self.eval(t.slice, fr)
            cur = self.getitem(base, idx, s)
            v = self.eval(s.value, fr)
            self.setitem(base, idx, self.binop(s.op, cur, v, s), s)
        else:
            raise Unsupported('augassign target')

    def assign_target(self, t, v, fr):
        if isinstance(t, ast.Name):
            fr.assign(t.id, v)
        elif isinstance(t, (ast.Tuple, ast.List)):
            vals = self.iterate(v, t) if not isinstance(v, tuple) else list(v)
            if any(isinstance(e, ast.Starred) for e in t.elts):
                raise Unsupported('starred assignment')
            if len(vals) != len(t.elts):
                self.raise_(ValueError, 'unpack length mismatch', node=t)
            for tt, vv in zip(t.elts, vals):
                self.assign_target(tt, vv, fr)
        elif isinstance(t, ast.Attribute):
            self.setattr(self.eval(t.value, fr), t.attr, v, t)
        elif isinstance(t, ast.Subscript):
            base = self.eval(t.value, fr)
            if isinstance(t.slice, ast.Slice):
                lo = self.eval(t.slice.lower, fr) if t.slice.lower is not None else None
                hi = self.eval(t.slice.upper, fr) if t.slice.upper is not None else None
                self.setslice(base, lo, hi, v, t)
            else:
                self.setitem(base, self.eval(t.slice, fr), v, t)
        else:
            raise Unsupported(f'assignment target {type(t).__name__}')

    def s_Delete(self, s, fr):
        for t in s.targets:
            if isinstance(t, ast.Subscript):
                base = self.eval(t.value, fr)
                idx = self.eval(t.slice, fr)
                if hasattr(base, 'delitem'):
                    base.delitem(self, idx, s)
                elif isinstance(base, dict):
                    if is_sym(idx):
                        raise Unsupported('symbolic dict key')
                    try:
                        del base[idx]
                    except KeyError:
                        self.raise_(KeyError, idx, node=s)
                elif isinstance(base, list):
                    del base[idx]
                elif isinstance(base, SymObj) and '__delitem__' in _mro_dict(base.cls):
                    self.call(_mro_dict(base.cls)['__delitem__'], [base, idx], {}, s)
                else:
                    raise Unsupported('del target')
            elif isinstance(t, ast.Name):
                fr.locals.pop(t.id, None)
            elif isinstance(t, ast.Attribute):
                base = self.eval(t.value, fr)
                if isinstance(base, (SymObj, Opaque)):
                    base.d.pop(t.attr, None)
                else:
                    raise Unsupported('del attribute of real object')
            else:
                raise Unsupported('del target')

    def s_Return(self, s, fr):
        raise ReturnSig(self.eval(s.value, fr) if s.value is not None else None)

    def s_Break(self, s, fr):
        raise BreakSig()

    def s_Continue(self, s, fr):
        raise ContinueSig()

    def s_Raise(self, s, fr):
        if s.exc is None:
            cur = fr.lookup('__current_exception__') if self._has(fr, '__current_exception__') else None
            if cur is None:
                self.raise_(RuntimeError, 'No active exception to reraise', node=s)
            raise cur
        v = self.eval(s.exc, fr)
        if is_exc_class(v):
            v = ExcVal(v, ())
        if isinstance(v, ExcVal):
            e = PyExc(v.cls, v.args, s.lineno, self.where())
            e.attrs = v.attrs
            e.value = v
            e.locals = dict(fr.locals)          # ghost: state at the raise site, for exceptional postconditions
            raise e
        if isinstance(v, PyExc):
            raise v
        self.raise_(TypeError, 'exceptions must derive from BaseException', node=s)

    def _has(self, fr, name):
        try:
            fr.lookup(name)
            return True
        except NameError:
            return False

    def s_If(self, s, fr):
        if self.branch(self.eval(s.test, fr), f'L{s.lineno}.if'):
            self.exec_block(s.body, fr)
        else:
            self.exec_block(s.orelse, fr)

    def s_FunctionDef(self, s, fr):
        fr.assign(s.name, self.make_function(s, fr, s.name))

    s_AsyncFunctionDef = s_FunctionDef

    def make_function(self, node, fr, name):
        q = (fr.fn.qualname + '.<locals>.' + name) if fr.fn is not None else name
        a = node.args
        defaults = [self.eval(d, fr) for d in a.defaults]
        kwdefaults = {k.arg: self.eval(d, fr) for k, d in zip(a.kwonlyargs, a.kw_defaults) if d is not None}
        f = InterpFunction(node, fr, fr.globals, q, None, None, defaults, kwdefaults)
        if not isinstance(node, ast.Lambda) and node.decorator_list:
            raise Unsupported('decorated nested function')
        return f

    def s_With(self, s, fr):
        mgrs = []
        for it in s.items:
            m = self.eval(it.context_expr, fr)
            ent = self.call(self.getattr(m, '__enter__', s), [], {}, s)
            if it.optional_vars is not None:
                self.assign_target(it.optional_vars, ent, fr)
            mgrs.append(m)
        try:
            self.exec_block(s.body, fr)
        except PyExc as e:
            for m in reversed(mgrs):
                self.call(self.getattr(m, '__exit__', s), [e.cls, e, None], {}, s)
            raise
        except (ReturnSig, BreakSig, ContinueSig):
            for m in reversed(mgrs):
                self.call(self.getattr(m, '__exit__', s), [None, None, None], {}, s)
            raise
        for m in reversed(mgrs):
            self.call(self.getattr(m, '__exit__', s), [None, None, None], {}, s)

    def s_AsyncWith(self, s, fr):
        mgrs = []
        for it in s.items:
            m = self.eval(it.context_expr, fr)
            ent = self.await_value(self.call(self.getattr(m, '__aenter__', s), [], {}, s), s)
            if it.optional_vars is not None:
                self.assign_target(it.optional_vars, ent, fr)
            mgrs.append(m)

        def leave(*a):
            for m in reversed(mgrs):
                self.await_value(self.call(self.getattr(m, '__aexit__', s), list(a), {}, s), s)
        try:
            self.exec_block(s.body, fr)
        except PyExc as e:
            leave(e.cls, e, None)
            raise
        except (ReturnSig, BreakSig, ContinueSig):
            leave(None, None, None)
            raise
        leave(None, None, None)

    def s_Try(self, s, fr):
        try:
            try:
                self.exec_block(s.body, fr)
            except PyExc as e:
                handled = False
                for h in s.handlers:
                    if self.exc_matches(e, h, fr):
                        handled = True
                        if h.name:
                            fr.assign(h.name, self.exc_value(e))
                        saved = fr.locals.get('__current_exception__')
                        fr.locals['__current_exception__'] = e
                        try:
                            self.exec_block(h.body, fr)
                        finally:
                            fr.locals['__current_exception__'] = saved
                        break
                if not handled:
                    raise
            else:
                self.exec_block(s.orelse, fr)
        finally:
            # note: python-level engine exceptions (Unsupported, PathEnd) must not run interpreted finally blocks
            import sys as _sys
            et = _sys.exc_info()[0]
            if s.finalbody and (et is None or issubclass(et, (PyExc, ReturnSig, BreakSig, ContinueSig))):
                self.exec_block(s.finalbody, fr)

    def exc_value(self, e):
        if getattr(e, 'value', None) is not None:
            return e.value
        v = ExcVal(e.cls, e.eargs)
        v.attrs = e.attrs
        e.value = v
        return v

    def exc_matches(self, e, h, fr):
        if h.type is None:
            return True
        t = self.eval(h.type, fr)
        ts = t if isinstance(t, tuple) else (t,)
        return any(inspect.isclass(x) and issubclass(e.cls, x) for x in ts)

    def s_While(self, s, fr):
        spec = self.loop_spec_for(s, fr)
        if spec is not None and not self.unroll:
            return self.loop_with_spec(s, fr, spec)
        count = 0
        limit = self.unroll or self.policy.get('while_unroll_limit', 0)
        broke = False
        while True:
            if not self.branch(self.eval(s.test, fr), f'L{s.lineno}.while'):
                break
            if limit and count >= limit:
                raise PathEnd('unroll limit')
            if not limit and spec is None and count >= 200:
                raise Unsupported(f'while loop at L{s.lineno} has no loop specification and does not terminate concretely')
            count += 1
            try:
                self.exec_block(s.body, fr)
            except BreakSig:
                broke = True
                break
            except ContinueSig:
                continue
        if not broke:
            self.exec_block(s.orelse, fr)

    def s_For(self, s, fr):
        it = self.eval(s.iter, fr)
        if isinstance(it, SymObj) and '__iter__' in _mro_dict(it.cls) and not hasattr(it, 'seq_len'):
            it = self.call(_mro_dict(it.cls)['__iter__'], [it], {}, s)      # iter(obj): the class's __iter__ (contract or body)
        spec = self.loop_spec_for(s, fr)
        if spec is not None and not self.unroll:
            return self.loop_with_spec(s, fr, spec, iterable=it)
        if hasattr(it, 'for_loop'):
            return it.for_loop(self, s, fr)
        items = self.iterate(it, s)
        broke = False
        for x in items:
            self.assign_target(s.target, x, fr)
            try:
                self.exec_block(s.body, fr)
            except BreakSig:
                broke = True
                break
            except ContinueSig:
                continue
        if not broke:
            self.exec_block(s.orelse, fr)

    def s_AsyncFor(self, s, fr):
        return self.s_For(s, fr)

    # ---- loops with invariants
    def loop_spec_for(self, s, fr):
        if fr.fn is None:
            return None
        return self.loop_specs.get((fr.fn.qualname, getattr(s, '_ordinal', None)))

    def loop_with_spec(self, s, fr, spec, iterable=None):
        """Hoare rule for a loop with invariant `spec.inv(it, env, g)` (dict label -> term) and variant
        `spec.var(it, env, g)`.  env = the frame's locals; g = ghost values captured at loop entry.
        For `for` loops g['i'] is the ghost iteration index (number of completed iterations) and
        g['seq'] the iterable (anything with seq_len()/elem()); the variant is seq_len - i by construction."""
        run = self.run
        name = f'{self.fullname(fr.fn)}#loop{getattr(s, "_ordinal", "")}'
        env = EnvView(fr) if fr.nonlocals else fr.locals
        is_for = isinstance(s, (ast.For, ast.AsyncFor))
        g = {}
        set_proto = is_for and getattr(iterable, 'set_protocol', False)
        if set_proto:
            return self.loop_over_map(s, fr, spec, iterable, name)
        if is_for:
            if isinstance(iterable, (list, tuple)):
                from .symseq import BufSeq
                raise Unsupported('loop specification over a concrete list: unroll instead')
            g['seq'] = iterable
            g['i'] = 0
        if spec.ghost:
            g.update(spec.ghost(self, env, g))
        for label, claim in spec.inv(self, env, g).items():
            claim, regs = claim if isinstance(claim, tuple) else (claim, None)
            run.oblige(f'{name}.inv.entry:{label}', claim, regions=regs)
        targets = assigned_names(s.body)
        if is_for:
            targets |= assigned_names([ast.Assign(targets=[s.target], value=ast.Constant(value=None))])
        # soundness guard: a python container mutated in the body through a method / subscript (not an assignment) must be
        # abstracted by the loop specification (custom havoc), otherwise the exit path would see its value at loop entry
        custom = getattr(spec, '_havoc', None) or {}
        for nd in [x for st in s.body for x in ast.walk(st)]:
            nm = None
            if isinstance(nd, ast.Call) and isinstance(nd.func, ast.Attribute) and isinstance(nd.func.value, ast.Name) \
                    and nd.func.attr in _MUTATORS:
                nm = nd.func.value.id
            elif isinstance(nd, ast.Subscript) and isinstance(nd.ctx, (ast.Store, ast.Del)) and isinstance(nd.value, ast.Name):
                nm = nd.value.id
            if nm is not None and nm in env and isinstance(env[nm], (list, dict, set, bytearray)) and nm not in custom \
                    and nm not in getattr(spec, 'abstracts', ()):
                raise Unsupported(f'loop at L{s.lineno} mutates the container {nm!r} but its specification has no abstraction (havoc) for it')
            if nm is not None and nm in env and not isinstance(env[nm], (int, str, bytes, bool, type(None))) and not is_sym(env[nm]):
                # aliasing: the havoc replaces the VARIABLE by a fresh abstract value; another local that refers to the same
                # object (directly or inside a tuple / list) would keep the value it had at loop entry
                obj = env[nm]
                for other, val in list(env.items()):
                    if other == nm or other.startswith('__'):
                        continue
                    inner = list(val) if isinstance(val, (tuple, list)) else [val]
                    if any(x is obj for x in inner):
                        raise Unsupported(f'loop at L{s.lineno} mutates {nm!r} in place while {other!r} refers to the same object '
                                          f'(aliasing is not tracked through a loop specification)')
        which = run.choose([('body', True), ('exit', True)], f'loop{getattr(s, "_ordinal", "")}')
        spec.havoc(self, env, g, targets)
        if is_for:
            g['i'] = run.fresh_int('iter')
            n = zint(iterable.seq_len())
            run.assume(z3.And(g['i'] >= 0, g['i'] <= n))
        for label, claim in spec.inv(self, env, g).items():
            run.assume(claim[0] if isinstance(claim, tuple) else claim)
        if which == 'body':
            if is_for:
                run.assume(g['i'] < n)
                self.assign_target(s.target, iterable.elem(self, g['i']), fr)
            else:
                if not self.branch(self.eval(s.test, fr), f'L{s.lineno}.while'):
                    raise PathEnd('guard false in body path')
            v0 = spec.var(self, env, g) if spec.var else None
            # ghost state of the loops whose body is being executed (for postconditions of a return from inside a loop)
            fr.locals['__active_loop_ghosts__'] = {**fr.locals.get('__active_loop_ghosts__', {}), getattr(s, '_ordinal', 0): g}
            pre_env = env.snapshot() if isinstance(env, EnvView) else dict(env)
            try:
                self.exec_block(s.body, fr)
            except ContinueSig:
                pass
            except BreakSig:
                fr.locals['__loop_ghost__'] = g
                return            # continue after the loop with the state at the break
            if getattr(spec, 'update', None):
                spec.update(self, pre_env, env, g)          # ghost code executed at the end of every iteration
            if is_for:
                g['i'] = g['i'] + 1
            for label, claim in spec.inv(self, env, g).items():
                claim, regs = claim if isinstance(claim, tuple) else (claim, None)
                run.oblige(f'{name}.inv.preserve:{label}', claim, regions=regs)
            if spec.step:
                for label, claim in spec.step(self, pre_env, env, g).items():
                    run.oblige(f'{name}.step:{label}', claim)
            if v0 is not None:
                v1 = spec.var(self, env, g)
                run.oblige(f'{name}.variant', And(zint(v0) >= 0, zint(v1) < zint(v0)))
            raise PathEnd('loop body path complete')
        else:
            if is_for:
                run.assume(g['i'] == n)
            else:
                if self.branch(self.eval(s.test, fr), f'L{s.lineno}.while'):
                    raise PathEnd('guard true in exit path')
            fr.locals['__loop_ghost__'] = g
            self.exec_block(s.orelse, fr)

    def loop_over_map(self, s, fr, spec, items, name):
        """`for k, v in m.items()` / `for k in m.keys()` over a symbolic map: arbitrary order; ghost g['visited'] is the
        set of keys already handled; the loop ends when every key of the map (as it was at the loop head) was visited"""
        from .symseq import KeyTok, BOOLROW
        run, env = self.run, (EnvView(fr) if fr.nonlocals else fr.locals)
        m = items.m
        dom0 = m.dom
        g = {'map': m, 'dom': dom0, 'visited': z3.K(INT, z3.BoolVal(False))}
        if spec.ghost:
            g.update(spec.ghost(self, env, g))
        for label, claim in spec.inv(self, env, g).items():
            run.oblige(f'{name}.inv.entry:{label}', claim)
        targets = assigned_names(s.body) | assigned_names([ast.Assign(targets=[s.target], value=ast.Constant(value=None))])
        which = run.choose([('body', True), ('exit', True)], f'loop{getattr(s, "_ordinal", "")}')
        spec.havoc(self, env, g, targets)
        V = z3.Const(run.fresh_name('visited'), BOOLROW)
        kq = z3.Int('k!vis')
        run.assume(z3.ForAll([kq], z3.Implies(z3.Select(V, kq), z3.Select(dom0, kq))))
        g['visited'] = V
        for label, claim in spec.inv(self, env, g).items():
            run.assume(claim)
        if which == 'body':
            k = run.fresh_int('key')
            run.assume(z3.And(z3.Select(dom0, k), z3.Not(z3.Select(V, k))))
            key = KeyTok(k)
            g['key'] = key
            if items.what == 'items':
                from .symseq import SymMap
                cur = SymMap(run, 'at-head', dom0, m.val, m.none)
                self.assign_target(s.target, (key, cur.lookup(key)), fr)
            else:
                self.assign_target(s.target, key, fr)
            pre_env = env.snapshot() if isinstance(env, EnvView) else dict(env)
            try:
                self.exec_block(s.body, fr)
            except ContinueSig:
                pass
            except BreakSig:
                return
            g['visited'] = z3.Store(V, k, z3.BoolVal(True))
            for label, claim in spec.inv(self, env, g).items():
                run.oblige(f'{name}.inv.preserve:{label}', claim)
            if spec.step:
                for label, claim in spec.step(self, pre_env, env, g).items():
                    run.oblige(f'{name}.step:{label}', claim)
            raise PathEnd('loop body path complete')
        else:
            run.assume(z3.ForAll([kq], z3.Implies(z3.Select(dom0, kq), z3.Select(V, kq))))
            fr.locals['__loop_ghost__'] = g
            self.exec_block(s.orelse, fr)

    # ------------------------------------------------------------------ calls
    def call(self, f, args, kwargs=None, node=None):
        kwargs = kwargs or {}
        if isinstance(f, InterpFunction):
            c = self.reg.by_nested.get(f"{f.globals.get('__name__')}.{f.qualname}") if self.reg.by_nested else None
            # (the function under proof is entered through invoke(), so a call seen here is a call site - also a recursive one)
            if c is not None and c.use_contract_at(self, args, kwargs):
                from .contracts import _apply
                if f.is_async:
                    return CoroVal(lambda: _apply(self, c, f, args, kwargs, node), f.qualname)
                return _apply(self, c, f, args, kwargs, node)
            return self.invoke(f, args, kwargs, node)
        if isinstance(f, BoundMethod):
            if isinstance(f.fn, tuple):
                from . import models
                return models.value_method(self, f.fn, f.self_, args, kwargs, node)
            return self.call(f.fn, [f.self_] + list(args), kwargs, node)
        if isinstance(f, types.MethodType):
            return self.call(f.__func__, [f.__self__] + list(args), kwargs, node)
        if hasattr(f, 'call_'):
            return f.call_(self, args, kwargs, node)
        if isinstance(f, types.FunctionType):
            return self.call_real(f, args, kwargs, node)
        from . import models
        return models.call_builtin(self, f, args, kwargs, node)

    def call_real(self, fn, args, kwargs, node):
        if not (self.reg.under_proof is fn and not self.call_stack):
            for c in self.reg.candidates(fn):
                if c.use_contract_at(self, args, kwargs):
                    from .contracts import apply_contract
                    return apply_contract(self, c, fn, args, kwargs, node)
        from . import models
        m = models.REAL_FUNCTION_MODELS.get(fn)
        if m is not None:
            return m(self, args, kwargs, node)
        path = getattr(fn.__code__, 'co_filename', '')
        if not path.startswith(REPO_SRC) and not self.policy.get('inline_any'):
            return models.call_builtin(self, fn, args, kwargs, node)
        f = self.function_from_real(fn)
        key = f'{fn.__module__}.{fn.__qualname__}'
        if self.call_stack:
            self.inlined.add(key)
        return self.invoke(f, args, kwargs, node)

    def function_from_real(self, fn):
        node = self.src.find(fn)
        if not hasattr(node, '_ordinals_set'):
            k = 0
            for n in sorted([x for x in ast.walk(node) if isinstance(x, (ast.While, ast.For, ast.AsyncFor))],
                            key=lambda x: (x.lineno, x.col_offset)):
                k += 1
                n._ordinal = k
            node._ordinals_set = True
        g = fn.__globals__
        f = InterpFunction(node, None, g, fn.__qualname__, defining_class(fn), fn,
                           list(fn.__defaults__ or ()), dict(fn.__kwdefaults__ or {}))
        # closures of real nested functions are not reconstructed here
        if fn.__closure__:
            fr = Frame(None, None, g)
            for nm, cell in zip(fn.__code__.co_freevars, fn.__closure__):
                try:
                    fr.locals[nm] = cell.cell_contents
                except ValueError:
                    pass
            f.frame = fr
        return f

    def bind(self, f, args, kwargs, node):
        a = f.node.args
        params = [x.arg for x in a.posonlyargs + a.args]
        fr = {}
        args = list(args)
        if len(args) > len(params) and a.vararg is None:
            self.raise_(TypeError, f'{f.qualname}() takes {len(params)} positional arguments but {len(args)} were given', node=node)
        for p, v in zip(params, args):
            fr[p] = v
        if a.vararg is not None:
            fr[a.vararg.arg] = tuple(args[len(params):])
        kw = dict(kwargs)
        for p in params[len(args):]:
            if p in kw:
                fr[p] = kw.pop(p)
        nd = len(f.defaults)
        for i, p in enumerate(params):
            if p not in fr:
                j = i - (len(params) - nd)
                if j >= 0:
                    fr[p] = f.defaults[j]
                else:
                    self.raise_(TypeError, f'{f.qualname}() missing required argument {p}', node=node)
        for k in a.kwonlyargs:
            if k.arg in kw:
                fr[k.arg] = kw.pop(k.arg)
            elif k.arg in f.kwdefaults:
                fr[k.arg] = f.kwdefaults[k.arg]
            else:
                self.raise_(TypeError, f'missing keyword-only argument {k.arg}', node=node)
        if a.kwarg is not None:
            fr[a.kwarg.arg] = kw
        elif kw:
            for k in kw:
                if k in fr:
                    self.raise_(TypeError, f'{f.qualname}() got multiple values for argument {k}', node=node)
            self.raise_(TypeError, f'{f.qualname}() got an unexpected keyword argument {list(kw)[0]}', node=node)
        return fr

    def invoke(self, f, args, kwargs, node):
        loc = self.bind(f, args, kwargs, node)
        if f.is_async and not getattr(f, '_force_sync', False):
            return CoroVal(lambda: self.run_body(f, loc), f.qualname)
        if f.is_gen:
            loc['__yielded__'] = []
            self.run_body(f, loc)
            return loc['__yielded__']
        return self.run_body(f, loc)

    def run_body(self, f, loc):
        if len(self.call_stack) > self.max_depth:
            raise Unsupported('interpretation depth exceeded (recursion?)')
        fr = Frame(f, f.frame, f.globals)
        fr.locals.update(loc)
        if f.is_async and f.is_gen and '__yielded__' not in fr.locals:
            fr.locals['__yielded__'] = []
        self.call_stack.append(self.fullname(f))
        if len(self.call_stack) == 1:
            self.top_locals = fr.locals          # ghost access for postconditions of the function under proof
        try:
            if isinstance(f.node, ast.Lambda):
                return self.eval(f.node.body, fr)
            body = f.node.body
            try:
                self.exec_block(body, fr)
            except ReturnSig as r:
                return r.value
            return None
        finally:
            self.call_stack.pop()


_MISSING = object()


def _mro_dict(cls):
    d = {}
    for k in reversed(cls.__mro__):
        if k is object:
            continue
        d.update(k.__dict__)
    return d


def _static_lookup(cls, name):
    for k in cls.__mro__:
        if name in k.__dict__:
            return k.__dict__[name]
    return _MISSING


def _is_data_descriptor(a):
    t = type(a)
    return hasattr(t, '__set__') or hasattr(t, '__delete__')


def _in_repo_class(t):
    import sys
    m = sys.modules.get(getattr(t, '__module__', ''), None)
    f = getattr(m, '__file__', '') or ''
    return f.startswith(REPO_SRC)


_MUTATORS = {'append', 'extend', 'add', 'update', 'pop', 'remove', 'clear', 'insert', 'setdefault', 'discard', 'popitem', 'sort',
             'reverse'}


def assigned_names(stmts):
    out = set()

    class V(ast.NodeVisitor):
        def visit_Name(self, n):
            if isinstance(n.ctx, (ast.Store, ast.Del)):
                out.add(n.id)

        def visit_FunctionDef(self, n):
            out.add(n.name)

        visit_AsyncFunctionDef = visit_FunctionDef

        def visit_Lambda(self, n):
            pass
    for s in stmts:
        V().visit(s)
    return out
