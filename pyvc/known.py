"""Known findings: committed file /verif/known_findings.json, read-only at run time.

entry = {"id", "property", "status": "open" | "fixed", "obligation": fnmatch pattern over obligation ids,
         "region": optional name of a region predicate supplied at the oblige() site, "what", "witness", "commit"}
An open entry covers a failed obligation only if every counter-model lies inside the listed region(s) of that
obligation (checked with the solver); a different violation of the same obligation is still reported.
A fixed entry suppresses nothing."""
import fnmatch
import json
import os

PATH = os.path.join(os.path.dirname(os.path.dirname(os.path.abspath(__file__))), 'known_findings.json')


def load():
    if not os.path.exists(PATH):
        return []
    with open(PATH) as f:
        return json.load(f)['findings']


def open_entries_for(entries, obligation_name):
    return [e for e in entries if e.get('status') == 'open' and fnmatch.fnmatchcase(obligation_name, e['obligation'])]
