"""z3 helpers shared by the engine and the contracts: constant-folding connectives over
(python bool | z3 Bool) and (python int | z3 Int)."""
import z3

INT = z3.IntSort()
ROW = z3.ArraySort(INT, INT)          # one buffer: index -> byte
HEAP = z3.ArraySort(INT, ROW)         # cell id -> buffer


def is_sym(x):
    return isinstance(x, z3.ExprRef)


def is_symbool(x):
    return isinstance(x, z3.BoolRef)


def is_symint(x):
    return isinstance(x, z3.ArithRef)


def zint(x):
    """python int / bool / z3 term -> z3 Int term"""
    if isinstance(x, bool):
        return z3.IntVal(1 if x else 0)
    if isinstance(x, int):
        return z3.IntVal(x)
    if is_symbool(x):
        return z3.If(x, 1, 0)
    if is_symint(x):
        return x
    raise TypeError(f'not an int-like value: {x!r}')


def zbool(x):
    if isinstance(x, bool):
        return z3.BoolVal(x)
    if is_symbool(x):
        return x
    raise TypeError(f'not a bool-like value: {x!r}')


def And(*xs):
    out = []
    for x in xs:
        if x is True:
            continue
        if x is False:
            return False
        out.append(zbool(x))
    if not out:
        return True
    return out[0] if len(out) == 1 else z3.And(*out)


def Or(*xs):
    out = []
    for x in xs:
        if x is False:
            continue
        if x is True:
            return True
        out.append(zbool(x))
    if not out:
        return False
    return out[0] if len(out) == 1 else z3.Or(*out)


def Not(x):
    if isinstance(x, bool):
        return not x
    return z3.Not(zbool(x))


def Implies(a, b):
    return Or(Not(a), b)


def Iff(a, b):
    return And(Implies(a, b), Implies(b, a))


def If(c, a, b):
    if isinstance(c, bool):
        return a if c else b
    if isinstance(a, (int, bool)) and isinstance(b, (int, bool)) and not isinstance(a, bool) and a == b:
        return a
    if isinstance(a, bool) or is_symbool(a):
        return z3.If(c, zbool(a), zbool(b))
    return z3.If(c, zint(a), zint(b))


def Eq(a, b):
    if not is_sym(a) and not is_sym(b):
        return a == b
    if is_symbool(a) or is_symbool(b) or isinstance(a, bool) or isinstance(b, bool):
        if (isinstance(a, bool) or is_symbool(a)) and (isinstance(b, bool) or is_symbool(b)):
            return zbool(a) == zbool(b)
    return zint(a) == zint(b)


def simp(x):
    if is_sym(x):
        x = z3.simplify(x)
        if z3.is_true(x):
            return True
        if z3.is_false(x):
            return False
        if z3.is_int_value(x):
            return x.as_long()
    return x


def Sum(xs):
    r = 0
    for x in xs:
        r = r + x
    return r
