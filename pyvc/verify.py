"""Explorer: runs the real function body against its contract on every path and collects obligations."""
import ast
import hashlib
import time
import traceback
import z3

from .zutil import *
from .run import Run, View, Unsupported, PathEnd, Obligation
from .values import *
from .interp import Interp
from .contracts import Ctx, REGISTRY, bind_params
from . import models


class Explorer:
    def __init__(self, timeout_ms=20000, max_paths=4000):
        self.timeout_ms = timeout_ms
        self.max_paths = max_paths
        self.feas_timeout_ms = 1500
        self.worklist = []
        self.seen_obligations = set()
        self.obligations = []
        self.second_opinion = None
        self.errors = []
        self.paths = 0
        self.exits = {'return': 0, 'raise': {}}
        self.inlined = set()
        self.called = set()
        self.notes = set()
        self.known = []
        self.pinned = None

    def push(self, prefix):
        self.worklist.append(prefix)

    def record(self, o):
        self.obligations.append(o)


def set_loop_ordinals(fn_node):
    k = 0
    for n in sorted([x for x in ast.walk(fn_node) if isinstance(x, (ast.While, ast.For, ast.AsyncFor))],
                    key=lambda x: (x.lineno, x.col_offset)):
        k += 1
        n._ordinal = k


def loop_skeleton(fn_node):
    """the loops and yields of a function in source order, each with the nested function it is in, its nesting depth and its
    kind.  Loop specifications are attached to loops by ordinal and yield clauses to yields by position, so a function whose
    skeleton differs from the one recorded in /verif/repo_baseline.json (the code the contract was written for) cannot be
    judged by that contract: its specifications would be applied to other loops than the ones they describe."""
    out = []

    def walk(node, depth, path):
        for ch in ast.iter_child_nodes(node):
            if isinstance(ch, (ast.FunctionDef, ast.AsyncFunctionDef)):
                walk(ch, 0, path + '/' + ch.name)
            elif isinstance(ch, (ast.While, ast.For, ast.AsyncFor)):
                # the variables the loop body assigns (its loop-carried state): an invariant is written about exactly these,
                # so a loop that carries other variables is another loop (benign/C07-b3: Name.decode counting up to `end`
                # instead of counting `length` down failed the invariant about `length`)
                carried = sorted({x.id for b in ch.body for x in ast.walk(b) if isinstance(x, ast.Name) and isinstance(x.ctx, ast.Store)})
                out.append(f'{path}:{depth}:{type(ch).__name__}' + ('+else' if ch.orelse else '') + '[' + ','.join(carried) + ']')
                walk(ch, depth + 1, path)
            elif isinstance(ch, (ast.Yield, ast.YieldFrom)):
                out.append(f'{path}:{depth}:yield')
                walk(ch, depth, path)
            else:
                walk(ch, depth, path)
    walk(fn_node, 0, fn_node.name)
    return out


_BASE_SKEL = None


def baseline_skeletons():
    global _BASE_SKEL
    if _BASE_SKEL is None:
        import json, os
        bp = os.path.join(os.path.dirname(os.path.dirname(os.path.abspath(__file__))), 'repo_baseline.json')
        try:
            _BASE_SKEL = json.load(open(bp)).get('loop_skeletons', {})
        except (OSError, ValueError):
            _BASE_SKEL = {}
    return _BASE_SKEL


def ast_hash(node):
    return hashlib.sha256(ast.dump(node, include_attributes=False).encode()).hexdigest()[:16]


def verify_contract(c, src_index, unroll=0, timeout_ms=20000, registry=REGISTRY, max_paths=4000, known=(), pinned=None, budget_s=600, shard=None):
    """returns dict(name, obligations[], paths, errors[], secs, ...)"""
    t0 = time.time()
    ex = Explorer(timeout_ms, max_paths)
    ex.feas_timeout_ms = c.policy.get('feas_timeout_ms', ex.feas_timeout_ms)
    ex.known = list(known)
    ex.pinned = pinned
    ex.last_outcomes = []
    ex.push(())
    fn = c.fn
    fnode = src_index.find(fn)
    set_loop_ordinals(fnode)
    first = True
    vacuous = False
    base_skel = baseline_skeletons().get(c.name)
    if base_skel is not None and (c.loops or any(x.endswith(':yield') for x in base_skel)) and base_skel != loop_skeleton(fnode):
        # (found by the behaviour-preserving refactorings benign/C19-b1 and benign/C07-b1: a merged loop / a while turned into
        # for-else made obligations of the OLD loops fail on code that behaves the same)
        ex.errors.append('unsupported: the loop / yield structure of the function differs from the one its loop specifications were '
                         f'written for (then {base_skel}, now {loop_skeleton(fnode)})')
        ex.worklist.clear()
    while ex.worklist:
        prefix = ex.worklist.pop()
        if ex.paths >= max_paths:
            ex.errors.append(f'path budget {max_paths} exhausted')
            break
        if time.time() - t0 > budget_s:
            msg = f'time budget {budget_s}s exhausted after {ex.paths} paths ({len(ex.worklist)} path prefixes left unexplored)'
            if getattr(c, 'partial_ok', False):
                ex.notes.add('PARTIAL: ' + msg)      # explored paths are reported; the contract is NOT counted as fully proved
            else:
                ex.errors.append(msg)
            break
        run = Run(ex, prefix)
        it = Interp(run, registry, src_index, dict(c.policy))
        it.unroll = unroll
        registry.under_proof = fn
        try:
            cx = Ctx(it)
            p = c.setup(cx)
            _pre = c.pre(cx, **p)
            run.assume(And(*_pre.values()) if isinstance(_pre, dict) else _pre)
            if first:
                first = False
                if run.solver.check() == z3.unsat:
                    vacuous = True
                    ex.errors.append('precondition is unsatisfiable (vacuous contract)')
                    break
            if shard is not None and not pinned:
                # case-sharded verification: this worker owns the setup cases whose decision vector hashes to its index
                k_, n_ = shard
                if sum((i + 1) * (d if isinstance(d, int) else 1) for i, d in enumerate(run.decisions)) % n_ != k_:
                    raise PathEnd('case owned by another shard')
            cx.old_heap = run.heap
            cx.entry = dict(p)
            f = it.function_from_real(fn)
            q = fn.__qualname__
            if c.nested:
                inner = [x for x in ast.walk(fnode) if isinstance(x, (ast.FunctionDef, ast.AsyncFunctionDef)) and x.name == c.nested]
                if len(inner) != 1:
                    raise Unsupported(f'{len(inner)} inner functions named {c.nested} in {q}')
                from .values import Frame, InterpFunction
                set_loop_ordinals(inner[0])          # loop ordinals of a nested contract count inside the inner function
                cfr = Frame(f, None, fn.__globals__)
                cfr.locals.update(c.closure(cx))
                # names bound by the OUTER function that the contract's closure() does not describe (e.g. a helper the code
                # now defines next to the inner function): reading one is "contract not applicable", not a NameError of the
                # program (found by the behaviour-preserving refactoring benign/C20-b1)
                from .values import Unsupplied
                outer_bound = {x.id for x in ast.walk(fnode) if isinstance(x, ast.Name) and isinstance(x.ctx, ast.Store)} | \
                    {x.name for x in ast.walk(fnode) if isinstance(x, (ast.FunctionDef, ast.AsyncFunctionDef, ast.ClassDef)) and x is not fnode} | \
                    {x.arg for x in ast.walk(fnode.args) if isinstance(x, ast.arg)}
                inner_own = {x.id for x in ast.walk(inner[0]) if isinstance(x, ast.Name) and isinstance(x.ctx, ast.Store)} | \
                    {x.arg for x in ast.walk(inner[0].args) if isinstance(x, ast.arg)}
                inner_nonlocal = {nm for x in ast.walk(inner[0]) if isinstance(x, ast.Nonlocal) for nm in x.names}
                for nm in outer_bound - (inner_own - inner_nonlocal):
                    if nm not in cfr.locals and nm != c.nested:
                        cfr.locals[nm] = Unsupplied(nm)
                q = c.nested_qualname
                a_ = inner[0].args
                f = InterpFunction(inner[0], cfr, fn.__globals__, q, None, None, [it.eval(d, cfr) for d in a_.defaults], {})
                cfr.locals.setdefault(c.nested, f)      # the inner function can refer to itself (recursion)
                registry.under_proof = ('nested', q)
            f._force_sync = True
            it.loop_specs = {(k if isinstance(k, tuple) else (q, k)): v for k, v in c.loops.items()}
            it.top_qualname = q
            sig_args = list(p.values())
            try:
                va = f.node.args.vararg
                pk = dict(p)
                pos = []
                if va is not None and va.arg in pk:
                    names = [x.arg for x in f.node.args.posonlyargs + f.node.args.args]
                    pos = [pk.pop(nm) for nm in names] + list(pk.pop(va.arg))
                kwn = f.node.args.kwarg
                if kwn is not None and isinstance(pk.get(kwn.arg), dict):
                    extra = pk.pop(kwn.arg)              # the contract's value for **kwargs is spread into keyword arguments
                    pk.update(extra)
                # parameters of the real function that the contract does not supply are universally quantified too:
                # a boolean default is explored with both truth values, a None default with None and with an arbitrary opaque value; any other default is kept and the proof is
                # marked partial for that parameter (a parameter added to the code later cannot slip under a contract)
                a_ = f.node.args
                plist = [x.arg for x in a_.posonlyargs + a_.args]
                dflt = dict(zip(plist[len(plist) - len(f.defaults):], f.defaults)) if f.defaults else {}
                dflt.update({k.arg: f.kwdefaults[k.arg] for k in a_.kwonlyargs if k.arg in f.kwdefaults})
                supplied = set(pk) | set(plist[:len(pos)])
                allnames = plist + [k.arg for k in a_.kwonlyargs]
                missing = [nm for nm in allnames if nm not in supplied and nm not in dflt]
                extra_ = [nm for nm in pk if nm not in allnames] if a_.kwarg is None else []
                if missing or extra_:
                    # not a TypeError of the program: the contract was written for another signature
                    raise Unsupported(f'the signature of {q} no longer fits its contract (not supplied: {missing}, unknown: {extra_})')
                for nm in plist + [k.arg for k in a_.kwonlyargs]:
                    if nm in supplied or nm not in dflt or nm in getattr(c, 'default_only', ()):
                        continue
                    if isinstance(dflt[nm], bool):
                        which = run.choose([(f'{nm}={dflt[nm]}', True), (f'{nm}={not dflt[nm]}', True)], f'uncovered parameter {nm}')
                        pk[nm] = dflt[nm] if which == f'{nm}={dflt[nm]}' else (not dflt[nm])
                    elif dflt[nm] is None:
                        which = run.choose([(f'{nm}=None', True), (f'{nm}=<some value>', True)], f'uncovered parameter {nm}')
                        pk[nm] = None if which == f'{nm}=None' else Opaque('arbitrary', f'value of the uncovered parameter {nm}')
                    else:
                        note = f'PARTIAL parameter {nm} is not covered by the contract: explored only with its default {dflt[nm]!r}'
                        if note not in run.notes:
                            run.notes.append(note)
                res = it.invoke(f, pos, pk, None)
                outcome = ('return', res)
            except PyExc as e:
                outcome = ('raise', e)
            if ex.pinned is not None:
                ex.last_outcomes.append((outcome[0], outcome[1].cls.__name__ if outcome[0] == 'raise' else _show(outcome[1], run)))
            check_outcome(c, cx, outcome, p, run, ex)
            ex.paths += 1
        except PathEnd:
            ex.paths += 1
        except Unsupported as u:
            ex.errors.append(f'unsupported: {u} [trace {run.trace[-6:]}]')
        except z3.Z3Exception as e:
            ex.errors.append(f'z3 error: {e} {traceback.format_exc(limit=-6)}')
        except (ReturnSig, BreakSig, ContinueSig) as e:
            ex.errors.append(f'stray control-flow signal {type(e).__name__}')
        except Exception as e:       # engine bug: never a verdict
            ex.errors.append(f'engine exception: {type(e).__name__}: {e}\n{traceback.format_exc(limit=8)}')
        finally:
            registry.under_proof = None
            ex.inlined |= it.inlined
            ex.called |= it.called_contracts
            ex.notes |= set(run.notes)
    return dict(name=c.name, fn_hash=ast_hash(fnode), file=fn.__code__.co_filename, line=fnode.lineno,
                obligations=ex.obligations, paths=ex.paths, exits=ex.exits, errors=ex.errors,
                secs=time.time() - t0, inlined=sorted(ex.inlined), called=sorted(ex.called),
                notes=sorted(ex.notes), vacuous=vacuous, props=list(c.props), outcomes=ex.last_outcomes[:8])


def _show(v, run, _m=None):
    """engine value -> printable, evaluated in a model of the path condition (exact when inputs are pinned)"""
    try:
        if _m is None:
            if run.solver.check() != z3.sat:
                return '<no model>'
            _m = run.solver.model()

        def ev(t):
            if is_sym(t):
                t = _m.eval(t, model_completion=True)
                if z3.is_int_value(t):
                    return t.as_long()
                if z3.is_true(t):
                    return True
                if z3.is_false(t):
                    return False
                return str(t)
            return t
        if isinstance(v, View):
            n = ev(zint(v.length))
            if isinstance(n, int) and 0 <= n <= 4096:
                bs = [ev(v.at(run.heap, k)) for k in range(n)]
                if all(isinstance(b, int) for b in bs):
                    return {'hex': bytes(b % 256 for b in bs).hex(), 'kind': v.kind}
            return f'<{v.kind} len={n}>'
        if isinstance(v, (tuple, list)):
            return [_show(x, run, _m) for x in v]
        if is_sym(v):
            return ev(v)
        if isinstance(v, (int, str, bool, type(None))):
            return v
        return '<' + type(v).__name__ + '>'
    except Exception as e:      # noqa
        return f'<unprintable {type(v).__name__}>'


def check_outcome(c, cx, outcome, p, run, ex):
    name = c.name
    kind, val = outcome
    entry_cx = Ctx(cx.it, cx.old_heap)       # raise conditions are over the entry state
    entry_cx.run_heap_override = True
    if kind == 'raise':
        e = val
        ex.exits['raise'][e.cls.__name__] = ex.exits['raise'].get(e.cls.__name__, 0) + 1
        allowed = None
        for ecls, cond in c.raises.items():
            if issubclass(e.cls, ecls):
                allowed = (ecls, cond)
                break
        site = f'{e.where}L{e.lineno}'
        if allowed is None:
            run.oblige(f'{name}#raises.only[{e.cls.__name__}@{site}]', False,
                       f'{e.cls.__name__} is not in the documented raise-set of {name}')
        else:
            saved = run.heap
            run.heap = cx.old_heap
            try:
                cond = allowed[1](cx, **p)
            finally:
                run.heap = saved
            run.oblige(f'{name}#raises.when[{e.cls.__name__}@{site}]', cond)
        xp = getattr(c, 'xpost', None)
        if xp is not None:
            for label, t in xp(cx, e, **p).items():
                run.oblige(f'{name}#xpost.{label}[{e.cls.__name__}@{site}]', t)
    else:
        ex.exits['return'] += 1
        if c.exact_raises:
            saved = run.heap
            run.heap = cx.old_heap
            try:
                conds = {k: f(cx, **p) for k, f in c.raises.items()}
            finally:
                run.heap = saved
            for ecls, cond in conds.items():
                run.oblige(f'{name}#post.must_raise[{ecls.__name__}]', Not(cond))
        run.oblige_all([(f'{name}#post.{label}', t) for label, t in c.post(cx, val, **p).items()])


def summarize(res):
    obs = res['obligations']
    nd = sum(1 for o in obs if o.status == 'discharged')
    failed = [o for o in obs if o.status == 'failed']
    unk = [o for o in obs if o.status == 'unknown']
    return dict(n=len(obs), discharged=nd, failed=failed, unknown=unk)
