"""Value classes of the interpreter (besides python ints/bools/str/None/tuples, z3 terms and View)."""
import ast
import inspect
import os
import sys


class PyExc(Exception):
    """A python exception raised by the interpreted code."""

    def __init__(self, cls, args=(), lineno=None, where=''):
        super().__init__(f'{cls.__name__}@{where}L{lineno}')
        self.cls, self.eargs, self.lineno, self.where = cls, tuple(args), lineno, where
        self.attrs = {}
        self.cause = None


class ReturnSig(Exception):
    def __init__(self, value):
        self.value = value


class BreakSig(Exception):
    pass


class ContinueSig(Exception):
    pass


class SymObj:
    """instance of the real class `cls`; instance attributes are run-local"""

    def __init__(self, cls, attrs=None, label=''):
        self.cls = cls
        self.d = attrs if attrs is not None else {}
        self.label = label
        # complete: built by interpreting the class's own __init__, so a missing attribute really is missing.  An instance
        # written down by a contract (attribute dictionary given) is PARTIAL: an attribute it does not list is unknown.
        self.complete = False

    def __repr__(self):
        return f'<SymObj {self.cls.__name__} {self.label}>'


class Opaque:
    """an object known only through assumed contracts on its methods (asyncio futures, faces, ...)"""

    def __init__(self, typ, label='', attrs=None):
        self.typ, self.label, self.d = typ, label, attrs if attrs is not None else {}

    def __repr__(self):
        return f'<Opaque {self.typ} {self.label}>'


class InterpFunction:
    def __init__(self, node, frame, globals_, qualname, defcls=None, real=None, defaults=None, kwdefaults=None):
        self.node, self.frame, self.globals = node, frame, globals_
        self.qualname, self.defcls, self.real = qualname, defcls, real
        self.defaults = defaults or []
        self.kwdefaults = kwdefaults or {}
        self.is_async = isinstance(node, ast.AsyncFunctionDef)
        self.is_gen = any(isinstance(n, (ast.Yield, ast.YieldFrom)) for n in _walk_own(node)) \
            if not isinstance(node, ast.Lambda) else False

    def __repr__(self):
        return f'<InterpFunction {self.qualname}>'


def _walk_own(fn_node):
    """walk a function body without descending into nested function definitions"""
    stack = list(fn_node.body) if isinstance(fn_node.body, list) else [fn_node.body]
    while stack:
        n = stack.pop()
        yield n
        for c in ast.iter_child_nodes(n):
            if isinstance(c, (ast.FunctionDef, ast.AsyncFunctionDef, ast.Lambda, ast.ClassDef)):
                continue
            stack.append(c)


class BoundMethod:
    def __init__(self, fn, self_):
        self.fn, self.self_ = fn, self_

    def __repr__(self):
        return f'<BoundMethod {self.fn} of {self.self_!r}>'


class SuperProxy:
    def __init__(self, defcls, self_):
        self.defcls, self.self_ = defcls, self_


class CoroVal:
    """an un-awaited call of an async function"""

    def __init__(self, thunk, label=''):
        self.thunk, self.label = thunk, label


class ExcVal:
    """an exception instance value"""

    def __init__(self, cls, args=()):
        self.cls, self.args, self.attrs = cls, tuple(args), {}

    def __repr__(self):
        return f'<ExcVal {self.cls.__name__}>'


class Quot:
    """symbolic integer / concrete number (true division): an opaque real value, only its numerator and denominator are known"""

    def __init__(self, num, den):
        self.num, self.den = num, den

    def __repr__(self):
        return f'<Quot {self.num}/{self.den}>'


class SymStr:
    """opaque text value; only identity, ghost utf-8 length and ghost utf-8 bytes are known"""

    def __init__(self, label, length=None, utf8=None):
        self.label, self.length, self.utf8 = label, length, utf8

    def __repr__(self):
        return f'<SymStr {self.label}>'


class EnvView(dict):
    """the variables of a frame as seen by a loop specification: the frame's own locals PLUS the variables it declared
    `nonlocal` (read, written and havoc'd in the enclosing frame that owns them).  Reading also falls back to the
    enclosing frames for free variables of a closure.  Writes to other names go to the frame's locals."""

    def __init__(self, fr):
        super().__init__()
        self.fr = fr

    def _owner(self, name):
        fr = self.fr
        if name in fr.nonlocals:
            f = fr.parent
            while f is not None:
                if name in f.locals:
                    return f.locals
                f = f.parent
            return None
        return fr.locals

    def __contains__(self, name):
        o = self._owner(name)
        return o is not None and name in o

    def __getitem__(self, name):
        o = self._owner(name)
        if o is not None and name in o:
            return o[name]
        f = self.fr.parent
        while f is not None:
            if name in f.locals:
                return f.locals[name]
            f = f.parent
        raise KeyError(name)

    def get(self, name, default=None):
        try:
            return self[name]
        except KeyError:
            return default

    def __setitem__(self, name, val):
        o = self._owner(name)
        if o is None:
            raise NameError(name)
        o[name] = val

    def keys(self):
        ks = list(self.fr.locals.keys())
        ks += [n for n in self.fr.nonlocals if n in self and n not in self.fr.locals]
        return ks

    def __iter__(self):
        return iter(self.keys())

    def __len__(self):
        return len(self.keys())

    def items(self):
        return [(k, self[k]) for k in self.keys()]

    def pop(self, name, default=None):
        o = self._owner(name)
        return o.pop(name, default) if o is not None else default

    def snapshot(self):
        return {k: self[k] for k in self.keys()}


class Unsupplied:
    """placeholder for a variable of an enclosing function that a nested-function contract does not describe"""

    def __init__(self, name):
        self.name = name


class Frame:
    def __init__(self, fn, parent, globals_):
        self.fn, self.parent, self.globals = fn, parent, globals_
        self.locals = {}
        self.nonlocals = set()
        self.globals_decl = set()

    def lookup(self, name):
        f = self
        while f is not None:
            if name in f.locals:
                v = f.locals[name]
                if isinstance(v, Unsupplied):
                    from .run import Unsupported
                    raise Unsupported(f'free variable {name!r} of the inner function is bound by the enclosing function but not described by the contract')
                return v
            f = f.parent
        if name in self.globals:
            return self.globals[name]
        import builtins
        if hasattr(builtins, name):
            return getattr(builtins, name)
        raise NameError(name)

    def assign(self, name, value):
        if name in self.nonlocals:
            f = self.parent
            while f is not None:
                if name in f.locals:
                    f.locals[name] = value
                    return
                f = f.parent
            raise NameError(name)
        self.locals[name] = value


class SourceIndex:
    """finds the ast of a real function object in the real source file (re-read on every run)"""

    def __init__(self):
        self.files = {}

    def file(self, path):
        if path not in self.files:
            with open(path) as f:
                src = f.read()
            tree = ast.parse(src, path)
            idx = {}
            self._index(tree, '', idx)
            self.files[path] = (tree, idx, src)
        return self.files[path]

    def _index(self, node, prefix, idx):
        for c in ast.iter_child_nodes(node):
            if isinstance(c, (ast.FunctionDef, ast.AsyncFunctionDef)):
                q = prefix + c.name
                idx.setdefault(q, []).append(c)
                self._index(c, q + '.<locals>.', idx)
            elif isinstance(c, ast.ClassDef):
                self._index(c, prefix + c.name + '.', idx)
            else:
                self._index(c, prefix, idx)

    def find(self, fn):
        code = fn.__code__
        path = code.co_filename
        tree, idx, _ = self.file(path)
        cands = idx.get(fn.__qualname__, [])
        for c in cands:
            first = min([c.lineno] + [d.lineno for d in c.decorator_list])
            if first == code.co_firstlineno or c.lineno == code.co_firstlineno:
                return c
        if len(cands) == 1:
            return cands[0]
        raise LookupError(f'cannot locate source of {fn.__qualname__} in {path}')

    def find_by_qualname(self, path, qualname):
        tree, idx, _ = self.file(path)
        c = idx.get(qualname, [])
        if len(c) != 1:
            raise LookupError(f'{qualname}: {len(c)} definitions in {path}')
        return c[0]


def defining_class(fn):
    """the class object in whose body `fn` was defined (for zero-argument super())"""
    parts = fn.__qualname__.split('.')
    if len(parts) < 2 or '<locals>' in parts:
        return None
    obj = sys.modules.get(fn.__module__)
    for p in parts[:-1]:
        obj = getattr(obj, p, None)
        if obj is None:
            return None
    return obj if inspect.isclass(obj) else None


class OptInt:
    """Optional[int] with symbolic presence: `isnone` (z3 Bool) and `val` (z3 Int, meaningful when not None)"""

    def __init__(self, isnone, val):
        self.isnone, self.val = isnone, val

    def __repr__(self):
        return f'<OptInt {self.val}>'
