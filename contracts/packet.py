"""Packet-level contracts (ndn_format_0_3.py): make_data / make_interest proved with the concrete field lists of
DataPacketValue / InterestPacketValue unrolled (read from the live classes on every run) and every Field call going
through that Field's contract; nested plain models (MetaInfo, SignatureInfo, Links) through the generic TlvModel
contracts (ghost announced length)."""
import struct
import z3
from ndn.encoding import ndn_format_0_3 as nf
from ndn.encoding import tlv_model as tm
from pyvc.zutil import *
from pyvc.contracts import Contract, contract, LoopSpec
from pyvc.run import View, Unsupported
from pyvc.values import SymObj, SymStr, Opaque
from pyvc.symseq import BufSeq
from spec.tlv import *
from contracts.fields import val_cases
from contracts.fields2 import name_cases, new_signer, model_len
from contracts.model import AbsInstance, AbsFields

ENC_RAISES = (struct.error, IndexError, ValueError, TypeError)


def absview(v):
    """the whole cell of v, addressed by absolute position"""
    return View(v.cell, 0, 0, v.kind, v.writable)


def wf_outer(h, ret, typ):
    """ret is exactly one element of type typ: shortest-form T and L, declared length == remaining bytes"""
    tn = tlsize(typ)
    L = zint(ret.length) - tn - need_at(h, ret, tn)
    return And(zint(ret.length) >= 2, tlenc_at(h, ret, 0, typ), L >= 0, tlenc_at(h, ret, tn, L))


def signed_ghost(cx):
    g = cx.run.ghost.get('signer.signed')
    if g is None:
        return None
    contents, heap_at_sign, vb = g
    r = next(t for n, k, t in cx.run.inputs if n == 'signer.r')
    return contents, heap_at_sign, vb, r


@contract
class make_data(Contract):
    fn = nf.make_data
    props = ('C01', 'C02')
    doc = ('make_data returns exactly one well-formed Data element (06, shortest-form exact length) for every name form, '
           'MetaInfo, content and signer; with a signer, the signer is handed exactly ONE range that starts at the first '
           'byte of the Data value (the Name) and ends where the SignatureValue element starts, the value buffer is the '
           'bytes right after that element\'s header, and after the length repair the SignatureValue element (length = real '
           'signature size) ends exactly at the end of the packet')

    def setup(self, cx):
        k, name = name_cases(cx, ('str', 'bytes', 'list'))
        mk = cx.run.choose([('meta_info=None', True), ('meta_info', True)], 'meta')
        meta = None
        if mk == 'meta_info':
            meta = AbsInstance(AbsFields(cx.run))
            cx.run.assume(model_len(cx.run, meta) < 2 ** 32)
        ck, content = val_cases(cx, ['None', 'bytes'])
        if content is not None:
            cx.run.assume(zint(content.length) < 2 ** 32)
        sk = cx.run.choose([('signer=None', True), ('signer', True)], 'signer')
        signer = new_signer(cx.run) if sk == 'signer' else None
        return dict(name=name, meta_info=meta, content=content, signer=signer)

    def pre(c, cx, name, meta_info, content, signer):
        ok = True
        if isinstance(name, View):       # a pre-encoded Name: starts with the Name type
            ok = And(zint(name.length) < 2 ** 32, zint(name.length) >= 2, name.at(cx.heap, 0) == 7)
        elif isinstance(name, BufSeq):
            ok = name.total() < 2 ** 32
        return ok

    # nested plain models (MetaInfo, SignatureInfo) are abstract here and may reject their own field values
    raises = {e: (lambda cx, name, meta_info, content, signer: isinstance(name, SymStr) or meta_info is not None or signer is not None)
              for e in (ValueError, TypeError, struct.error, IndexError)}

    def post(c, cx, result, name, meta_info, content, signer):
        h = cx.heap
        if not isinstance(result, View):
            return {'returns_buffer': False}
        out = {'one_wellformed_data_element': wf_outer(h, result, 6)}
        sg = signed_ghost(cx)
        if signer is None:
            out['no_signer_no_signing'] = sg is None
            return out
        if sg is None:
            return {'signer_was_asked_to_sign': False}
        contents, hs, vb, r = sg
        ok = isinstance(contents, list) and len(contents) == 1 and isinstance(contents[0], View)
        if not ok:
            out['exactly_one_covered_range'] = False
            return out
        cov = contents[0]
        A_ = absview(result)
        vstart = zint(result.start) + 1 + need_at(h, result, 1)
        end = simp(zint(cov.start) + zint(cov.length))
        out['covered_in_packet_buffer'] = Eq(cov.cell, result.cell)
        out['covered_starts_at_name'] = And(zint(cov.start) == vstart, A_.at(hs, cov.start) == 7)
        out['covered_ends_at_signature_value'] = And(zint(cov.length) >= 0, A_.at(h, end) == 0x17)
        out['signature_value_is_last_and_exact'] = And(tlenc_at(h, A_, end + 1, r),
                                                        end + 1 + tlsize(r) + zint(r) == zint(result.start) + zint(result.length))
        out['value_buffer_right_after_header'] = And(Eq(vb.cell, result.cell), zint(vb.start) == end + 1 + tlsize(r))
        return out

    def build(self, i):
        return None


# ----------------------------------------------------------------------------- make_interest
from contracts.interest_name import wf_components


def _opt_int_cases(cx):
    k = cx.run.choose([('no optional integers', True), ('all optional integers', True)], 'optional ints')
    cx.run.input_const('optional_ints', k)

    def mk(name, hi):
        v = cx.run.input_int(name)
        cx.run.assume(And(v >= 0, v < hi))
        return v
    nonce = mk('nonce', 2 ** 32) if k in ('all optional integers', 'nonce only') else None
    lifetime = mk('lifetime', 2 ** 64) if k in ('all optional integers', 'lifetime only') else None
    hop = mk('hop_limit', 256) if k in ('all optional integers', 'hop_limit only') else None
    return nonce, lifetime, hop


@contract
class make_interest(Contract):
    fn = nf.make_interest
    props = ('C01', 'C02')
    doc = ('make_interest returns exactly one well-formed Interest element (05, shortest-form exact length) for every name form, '
           'parameter combination, ApplicationParameters and signer; with a signer the ranges handed to it are the name '
           'components except the digest component followed by ONE range from the start of ApplicationParameters to the start of '
           'the InterestSignatureValue element, that element (real signature length) is the last one, and the parameters digest '
           'is SHA-256 over the bytes from ApplicationParameters to the end of the Interest taken AFTER the signature was '
           'written and the length repaired')
    tier = 'thorough'
    shards = 8
    partial_ok = True          # path budget: what was explored is reported, the rest is listed as unexplored in evidence
    raises = {e: (lambda cx, **p: True) for e in (ValueError, TypeError, struct.error, IndexError)}

    def setup(self, cx):
        run = cx.run
        # deductive part: names given as component lists; optional integers all absent or all present; no forwarding hint.
        # The other input forms and single-field combinations are covered by the bounded stand-in (2^6 combinations).
        k, name = name_cases(cx, ('list',))
        if isinstance(name, BufSeq):
            run.assume(wf_components(run, run.heap, name))
        nonce, lifetime, hop = _opt_int_cases(cx)
        # (single optional integers and the forwarding hint are covered by the bounded stand-in: 2^6 combinations)
        fk = 'no forwarding hint'
        hint = []
        if fk == 'forwarding hint':
            hn = run.input_bufseq('hint_name', 'bytearray')
            run.assume(hn.total() < 2 ** 16)
            hint = [hn]
        ip = SymObj(nf.InterestParam, dict(can_be_prefix=run.input_bool('can_be_prefix'), must_be_fresh=run.input_bool('must_be_fresh'),
                                           nonce=nonce, lifetime=lifetime, hop_limit=hop, forwarding_hint=hint))
        ak, app = val_cases(cx, ['None', 'bytes'])
        if app is not None:
            run.assume(zint(app.length) < 2 ** 24)
        sk = run.choose([('signer=None', True), ('signer', True)], 'signer')
        signer = new_signer(run) if sk == 'signer' else None
        if signer is not None:
            run.assume(signer.d['S'] < 2 ** 16)
        return dict(name=name, interest_param=ip, app_param=app, signer=signer, need_final_name=False)

    def pre(c, cx, name, interest_param, app_param, signer, need_final_name):
        if isinstance(name, View):
            return And(zint(name.length) < 2 ** 24, zint(name.length) >= 2, name.at(cx.heap, 0) == 7)
        return name.total() < 2 ** 24

    def post(c, cx, result, name, interest_param, app_param, signer, need_final_name):
        h = cx.heap
        run = cx.run
        if not isinstance(result, View):
            return {'returns_buffer': False}
        out = {'one_wellformed_interest_element': wf_outer(h, result, 5)}
        sg = signed_ghost(cx)
        digests = run.ghost.get('sha256_calls', [])
        need_digest = app_param is not None or signer is not None
        out['digest_computed_iff_parameters_or_signature'] = (len(digests) == 1) == need_digest
        A_ = absview(result)
        end_abs = zint(result.start) + zint(result.length)
        if need_digest and len(digests) == 1:
            dview, blocks, hd = digests[0]
            okb = len(blocks) == 1 and isinstance(blocks[0][0], View)
            out['digest_over_one_range'] = okb
            if okb:
                blk, hb = blocks[0]
                bend = zint(blk.start) + zint(blk.length)
                # from the ApplicationParameters element (type 0x24) to the end of the (repaired) Interest
                out['digest_range_starts_at_application_parameters'] = And(Eq(blk.cell, result.cell), A_.at(hb, blk.start) == 0x24)
                out['digest_range_ends_at_end_of_interest'] = bend == end_abs
                if sg is not None:
                    # hashed after the signer wrote the signature: the bytes of the signature value are the final ones
                    contents, hs, vb, r = sg
                    k = z3.Int('k!sigfinal')
                    out['digest_taken_after_signing'] = z3.ForAll([k], z3.Implies(
                        z3.And(k >= zint(vb.start), k < zint(vb.start) + zint(r)),
                        z3.Select(z3.Select(hb, zint(result.cell)), k) == z3.Select(z3.Select(h, zint(result.cell)), k)))
        if signer is None:
            out['no_signer_no_signing'] = sg is None
            return out
        if sg is None:
            out['signer_was_asked_to_sign'] = False
            return out
        contents, hs, vb, r = sg
        okc = isinstance(contents, list) and 1 <= len(contents) <= 3 and all(isinstance(x, View) for x in contents)
        out['covered_is_name_ranges_then_one_parameter_range'] = okc
        if okc:
            last = contents[-1]
            lend = simp(zint(last.start) + zint(last.length))
            out['last_range_starts_at_application_parameters'] = And(Eq(last.cell, result.cell), A_.at(hs, last.start) == 0x24)
            out['last_range_ends_at_signature_value'] = A_.at(h, lend) == 0x2e
            out['signature_value_is_last_and_exact'] = And(tlenc_at(h, A_, lend + 1, r), lend + 1 + tlsize(r) + zint(r) == end_abs)
            out['value_buffer_right_after_header'] = And(Eq(vb.cell, result.cell), zint(vb.start) == lend + 1 + tlsize(r))
            # the name ranges lie inside the Name element, before the parameters
            for idx, v in enumerate(contents[:-1]):
                out[f'name_range_{idx}_before_parameters'] = And(Eq(v.cell, result.cell), zint(v.start) + zint(v.length) <= zint(last.start),
                                                                 zint(v.length) > 0)
        return out
