"""Packet-level contracts (ndn_format_0_3.py): make_data / make_interest proved with the concrete field lists of
DataPacketValue / InterestPacketValue unrolled (read from the live classes on every run) and every Field call going
through that Field's contract; nested plain models (MetaInfo, SignatureInfo, Links) through the generic TlvModel
contracts (ghost announced length)."""
import struct
import z3
from ndn.encoding import ndn_format_0_3 as nf
from ndn.encoding import tlv_model as tm
from pyvc.zutil import *
from pyvc.contracts import Contract, contract, LoopSpec
from pyvc.run import View, Unsupported
from pyvc.values import SymObj, SymStr, Opaque
from pyvc.symseq import BufSeq
from spec.tlv import *
from contracts.fields import val_cases
from contracts.fields2 import name_cases, new_signer, model_len
from contracts.model import AbsInstance, AbsFields

ENC_RAISES = (struct.error, IndexError, ValueError, TypeError)


def absview(v):
    """the whole cell of v, addressed by absolute position"""
    return View(v.cell, 0, 0, v.kind, v.writable)


def wf_outer(h, ret, typ):
    """ret is exactly one element of type typ: shortest-form T and L, declared length == remaining bytes"""
    tn = tlsize(typ)
    L = zint(ret.length) - tn - need_at(h, ret, tn)
    return And(zint(ret.length) >= 2, tlenc_at(h, ret, 0, typ), L >= 0, tlenc_at(h, ret, tn, L))


def signed_ghost(cx):
    g = cx.run.ghost.get('signer.signed')
    if g is None:
        return None
    contents, heap_at_sign, vb = g
    r = next(t for n, k, t in cx.run.inputs if n == 'signer.r')
    return contents, heap_at_sign, vb, r


@contract
class make_data(Contract):
    fn = nf.make_data
    props = ('C01', 'C02')
    doc = ('make_data returns exactly one well-formed Data element (06, shortest-form exact length) for every name form, '
           'MetaInfo, content and signer; with a signer, the signer is handed exactly ONE range that starts at the first '
           'byte of the Data value (the Name) and ends where the SignatureValue element starts, the value buffer is the '
           'bytes right after that element\'s header, and after the length repair the SignatureValue element (length = real '
           'signature size) ends exactly at the end of the packet')

    def setup(self, cx):
        k, name = name_cases(cx, ('str', 'bytes', 'list'))
        mk = cx.run.choose([('meta_info=None', True), ('meta_info', True)], 'meta')
        meta = None
        if mk == 'meta_info':
            meta = AbsInstance(AbsFields(cx.run))
            cx.run.assume(model_len(cx.run, meta) < 2 ** 32)
        ck, content = val_cases(cx, ['None', 'bytes'])
        if content is not None:
            cx.run.assume(zint(content.length) < 2 ** 32)
        sk = cx.run.choose([('signer=None', True), ('signer', True)], 'signer')
        signer = new_signer(cx.run) if sk == 'signer' else None
        return dict(name=name, meta_info=meta, content=content, signer=signer)

    def pre(c, cx, name, meta_info, content, signer):
        ok = True
        if isinstance(name, View):       # a pre-encoded Name: starts with the Name type
            ok = And(zint(name.length) < 2 ** 32, zint(name.length) >= 2, name.at(cx.heap, 0) == 7)
        elif isinstance(name, BufSeq):
            ok = name.total() < 2 ** 32
        return ok

    # nested plain models (MetaInfo, SignatureInfo) are abstract here and may reject their own field values
    raises = {e: (lambda cx, name, meta_info, content, signer: isinstance(name, SymStr) or meta_info is not None or signer is not None)
              for e in (ValueError, TypeError, struct.error, IndexError)}

    def post(c, cx, result, name, meta_info, content, signer):
        h = cx.heap
        if not isinstance(result, View):
            return {'returns_buffer': False}
        out = {'one_wellformed_data_element': wf_outer(h, result, 6)}
        sg = signed_ghost(cx)
        if signer is None:
            out['no_signer_no_signing'] = sg is None
            return out
        if sg is None:
            return {'signer_was_asked_to_sign': False}
        contents, hs, vb, r = sg
        ok = isinstance(contents, list) and len(contents) == 1 and isinstance(contents[0], View)
        if not ok:
            out['exactly_one_covered_range'] = False
            return out
        cov = contents[0]
        A_ = absview(result)
        vstart = zint(result.start) + 1 + need_at(h, result, 1)
        end = simp(zint(cov.start) + zint(cov.length))
        out['covered_in_packet_buffer'] = Eq(cov.cell, result.cell)
        out['covered_starts_at_name'] = And(zint(cov.start) == vstart, A_.at(hs, cov.start) == 7)
        out['covered_ends_at_signature_value'] = And(zint(cov.length) >= 0, A_.at(h, end) == 0x17)
        out['signature_value_is_last_and_exact'] = And(tlenc_at(h, A_, end + 1, r),
                                                        end + 1 + tlsize(r) + zint(r) == zint(result.start) + zint(result.length))
        out['value_buffer_right_after_header'] = And(Eq(vb.cell, result.cell), zint(vb.start) == end + 1 + tlsize(r))
        return out

    def build(self, i):
        return None
