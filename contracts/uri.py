"""Contracts for the URI PRINTERS of names (property C09): Component.to_str, Component.to_canonical_uri, Name.to_str,
Name.to_canonical_uri.

Text is not modelled with SMT strings.  A text value built by the code under proof is a STRUCTURED TEXT: a sequence of parts

  'literal'                      a python str
  Dec(t)                         the decimal digits of the integer term t (format(t), str(t), f'{t}')
  MapB(view, table)              the concatenation, over the bytes b of the byte string `view` in order, of table[b];
                                 `table` (256 strings) is obtained by interpreting the REAL element expression of the
                                 comprehension / the real nested function for every byte value 0..255 (a complete case
                                 analysis over a finite domain, not a sample); bytes.hex() is MapB with the two-digit table
  JoinSeq(sep, seq, fn)          sep.join(fn(c) for c in seq) for a component list of any length, fn a real function

Two structured texts with the same parts denote the same string, so postconditions compare part lists (literals equal, terms
equal under the path condition, byte strings equal as windows of the same buffer, tables equal entry by entry).  The comparison
is sound but not complete: code that builds an equal string in another shape (e.g. character by character) is outside this
abstraction and reported as not applicable, never as a violation.

ASSUMED: str concatenation / join / format / f-string semantics of CPython for these part kinds; chr(), str.__contains__ and
set membership on concrete one-character strings are executed natively while tabulating."""
import ast
import string
import struct
import z3
from ndn.encoding.name import Component, Name
from pyvc.zutil import *
from pyvc.contracts import Contract, contract, LoopSpec
from pyvc.run import View, Unsupported
from pyvc.values import SymObj, Opaque, PyExc
from pyvc.symseq import BufSeq
from pyvc import models
from spec.tlv import tlval_at, need_at
from spec.tlv import beint_term, beint_axioms, bytes_in_range
from contracts.name import bytes_equal

HEX_TABLE = tuple(f'{b:02x}' for b in range(256))
UNRESERVED = set((string.ascii_letters + string.digits + '-._~').encode())
# NDN packet format, "NDN URI Scheme": unreserved characters stay, every other byte is %XX with upper-case hex digits
ESC_TABLE = tuple(chr(b) if b in UNRESERVED else f'%{b:02X}' for b in range(256))
ALT_PREFIX = {50: 'seg=', 52: 'off=', 54: 'v=', 56: 't=', 58: 'seq='}


class Dec:
    def __init__(self, term):
        self.term = term


class MapB:
    def __init__(self, view, heap, table):
        self.view, self.heap, self.table = view, heap, tuple(table)


class JoinSeq:
    def __init__(self, sep, seq, fn):
        self.sep, self.seq, self.fn = sep, seq, fn


class ByteMapList:
    """[E(b) for b in view] before it is joined"""

    def __init__(self, view, heap, table):
        self.view, self.heap, self.table = view, heap, table


class SeqMapList:
    """[fn(c) for c in seq] before it is joined"""

    def __init__(self, seq, fn):
        self.seq, self.fn = seq, fn


class Text:
    def __init__(self, parts):
        out = []
        for p in parts:
            if isinstance(p, Text):
                ps = p.parts
            else:
                ps = [p]
            for q in ps:
                if isinstance(q, Dec) and isinstance(simp(q.term), int):
                    q = format(simp(q.term))
                if isinstance(q, str):
                    if q == '':
                        continue
                    if out and isinstance(out[-1], str):
                        out[-1] += q
                        continue
                out.append(q)
        self.parts = out

    def binop_(self, it, op, b, node):
        if isinstance(op, ast.Add) and isinstance(b, (str, Text)):
            return mk([self, b])
        it.raise_(TypeError, 'can only concatenate str to str', node=node)

    def rbinop_(self, it, op, a, node):
        if isinstance(op, ast.Add) and isinstance(a, (str, Text)):
            return mk([a, self])
        it.raise_(TypeError, 'can only concatenate str to str', node=node)

    def truth(self, it):
        raise Unsupported('truth value of a structured text')

    def __repr__(self):
        return 'Text(' + ' + '.join(p if isinstance(p, str) else type(p).__name__ for p in self.parts) + ')'


def mk(parts):
    """a structured text, or a plain python str when every part is a literal"""
    t = Text(parts)
    if not t.parts:
        return ''
    if len(t.parts) == 1 and isinstance(t.parts[0], str):
        return t.parts[0]
    return t


def as_parts(x):
    if isinstance(x, Text):
        return x.parts
    if isinstance(x, str):
        return [x] if x else []
    return None


def text_eq(got, want):
    """-> dict of clauses saying that the structured text `got` has exactly the parts `want`"""
    g, w = as_parts(got), Text(want).parts
    if g is None:
        return {'is_text': False}
    out = {'same_number_of_parts': len(g) == len(w)}
    if len(g) != len(w):
        return out
    for i, (a, b) in enumerate(zip(g, w)):
        k = f'part{i}'
        if isinstance(b, str):
            out[f'{k}_literal_{b!r}'] = isinstance(a, str) and a == b
        elif isinstance(b, Dec):
            out[f'{k}_decimal_number'] = Eq(zint(a.term), zint(b.term)) if isinstance(a, Dec) else False
        elif isinstance(b, MapB):
            ok = isinstance(a, MapB)
            # the same byte string: same length and the same byte at every position (a slice of bytes is a copy)
            out[f'{k}_covers_exactly_these_bytes'] = And(Eq(zint(a.view.length), zint(b.view.length)),
                                                         bytes_equal(a.heap, a.view, 0, b.heap, b.view, 0, b.view.length)) if ok else False
            bad = [x for x in range(256) if a.table[x] != b.table[x]] if ok else []
            out[f'{k}_every_byte_value_rendered_as_specified'] = ok and not bad
            if bad:
                out[f'{k}_every_byte_value_rendered_as_specified'] = False
                got.bad_byte = bad[0]
        elif isinstance(b, JoinSeq):
            out[f'{k}_joins_every_component_in_order'] = isinstance(a, JoinSeq) and a.sep == b.sep and a.seq is b.seq and a.fn is b.fn
        else:
            out[k] = False
    return out


class TextHook:
    def fstring(self, it, parts, node):
        out = []
        for p in parts:
            if isinstance(p, str):
                out.append(p)
                continue
            v, spec, conv = p
            if isinstance(v, Text) and not spec and conv == -1:
                out.append(v)
            elif isinstance(v, str) and not spec and conv == -1:
                out.append(v)
            elif (is_symint(v) or (isinstance(v, int) and not isinstance(v, bool))) and not spec and conv == -1:
                out.append(Dec(v))
            elif isinstance(v, int) and not isinstance(v, bool) and isinstance(spec, str) and conv == -1:
                out.append(format(v, spec))
            else:
                return NotImplemented            # message text (repr of bytes ...): stays a placeholder
        return mk(out)

    def hex(self, it, view, node):
        return Text([MapB(view, it.run.heap, HEX_TABLE)])

    def format(self, it, fmt, args, kwargs, node):
        if kwargs:
            return NotImplemented
        out, k = [], 0
        for lit, field, spec, conv in string.Formatter().parse(fmt):
            out.append(lit)
            if field is None:
                continue
            if field != '' or spec or conv:
                return NotImplemented
            if k >= len(args):
                it.raise_(IndexError, 'Replacement index out of range', node=node)
            v = args[k]
            k += 1
            if is_symint(v) or (isinstance(v, int) and not isinstance(v, bool)):
                out.append(Dec(v))
            elif isinstance(v, (str, Text)):
                out.append(v)
            else:
                return NotImplemented
        return mk(out)

    def join(self, it, sep, arg, node):
        if isinstance(arg, ByteMapList):
            if sep != '':
                raise Unsupported('join of per-byte texts with a separator')
            return Text([MapB(arg.view, arg.heap, arg.table)])
        if isinstance(arg, SeqMapList):
            return Text([JoinSeq(sep, arg.seq, arg.fn)])
        if isinstance(arg, (list, tuple)) and any(isinstance(p, Text) for p in arg):
            out = []
            for i, p in enumerate(arg):
                if i:
                    out.append(sep)
                out.append(p)
            return mk(out)
        return NotImplemented

    def view_comp(self, it, view, n, fr):
        """(E(b) for b in <byte string>): tabulate E over every byte value by interpreting the real element expression"""
        g = n.generators[0]
        if g.ifs or not isinstance(g.target, ast.Name) or isinstance(n, ast.DictComp):
            return NotImplemented
        from pyvc.values import Frame
        table = []
        before = len(it.run.decisions)
        for b in range(256):
            f2 = Frame(fr.fn, fr, fr.globals)
            f2.locals[g.target.id] = b
            v = it.eval(n.elt, f2)
            if not isinstance(v, str):
                return NotImplemented
            table.append(v)
        if len(it.run.decisions) != before:
            raise Unsupported('the per-byte expression of a comprehension depends on symbolic state')
        return ByteMapList(view, it.run.heap, tuple(table))


models.TEXT_HOOK = TextHook()


def _bufseq_comp(self, it, n, fr):
    """(fn(c) for c in <component list>) where fn is a real function applied to the loop variable alone"""
    if not models.text_mode(it):
        return NotImplemented
    g = n.generators[0]
    e = n.elt
    if g.ifs or not isinstance(g.target, ast.Name) or not isinstance(e, ast.Call) or len(e.args) != 1 or e.keywords \
            or not isinstance(e.args[0], ast.Name) or e.args[0].id != g.target.id:
        return NotImplemented
    fn = it.eval(e.func, fr)
    if fn not in (Component.to_str, Component.to_canonical_uri):
        return NotImplemented
    # ASSUMED at this call site (contract of the element function, verified below): it raises ValueError / IndexError /
    # struct.error exactly for a malformed component and otherwise returns its text
    tag = it.run.choose([('every component well formed', True), (ValueError, True), (IndexError, True), (struct.error, True)], 'components')
    if tag != 'every component well formed':
        raise PyExc(tag, ('malformed component',), getattr(n, 'lineno', None), it.where())
    return SeqMapList(self, fn)


if not hasattr(BufSeq, 'comp_'):
    BufSeq.comp_ = _bufseq_comp


# ----------------------------------------------------------------------------- Component printers
def _value_view(cx, component):
    h = cx.old_heap
    tn = need_at(h, component, 0)
    sn = need_at(h, component, tn)
    return tn, sn, View(component.cell, simp(zint(component.start) + tn + sn), simp(zint(component.length) - tn - sn), component.kind)


def _malformed(cx, component):
    h = cx.heap
    L = zint(component.length)
    tn = need_at(h, component, 0)
    sn = need_at(h, component, tn)
    return L, tn, sn


class _CompPrinter(Contract):
    props = ('C09',)
    exact_raises = True
    conventions = False

    def setup(self, cx):
        cx.run.ghost['text_mode'] = True
        c = cx.run.input_buf('component', 'bytes')
        return dict(component=c)

    def pre(self, cx, component):
        return isinstance(component, View)

    raises = {
        IndexError: lambda cx, component: (lambda L, tn, sn: Or(L == 0, tn == L))(*_malformed(cx, component)),
        struct.error: lambda cx, component: (lambda L, tn, sn: Or(And(L > 0, tn > L), And(tn < L, tn + sn > L)))(*_malformed(cx, component)),
        ValueError: lambda cx, component: (lambda L, tn, sn: And(L > 0, tn < L, tn + sn <= L,
                                                                 L != tn + sn + tlval_at(cx.heap, component, tn)))(*_malformed(cx, component)),
    }

    def post(self, cx, result, component):
        h = cx.old_heap
        tn, sn, val = _value_view(cx, component)
        typ = tlval_at(h, component, 0)
        t = simp(typ)
        out = {}
        path_typ = cx.it.top_locals.get('typ')
        out['type_number_read_from_the_component'] = Eq(zint(path_typ), typ)
        case = cx.run.ghost.get('uri.case')
        want = None
        if self.conventions and case == 1:
            want = ['sha256digest=', MapB(val, h, HEX_TABLE)]
        elif self.conventions and case == 2:
            want = ['params-sha256=', MapB(val, h, HEX_TABLE)]
        elif self.conventions and case in ALT_PREFIX:
            want = [ALT_PREFIX[case], Dec(beint_term(h, val))]
        elif case == 8:
            want = [MapB(val, h, ESC_TABLE)]
        else:
            want = [Dec(typ), '=', MapB(val, h, ESC_TABLE)]
        for k, v in text_eq(result, want).items():
            out[k] = v
        return out


def _case_split(cx, component, conventions):
    """one path per rendering case of the type number (decided by the component's first number)"""
    run = cx.run
    typ = tlval_at(run.heap, component, 0)
    special = [8] + ([1, 2] + sorted(ALT_PREFIX) if conventions else [])
    opts = [(f'type {t}', typ == t) for t in special] + [('other type', And(*[typ != t for t in special]))]
    k = run.choose(opts, 'type')
    run.ghost['uri.case'] = int(k.split()[1]) if k != 'other type' else None


@contract
class comp_to_canonical_uri(_CompPrinter):
    fn = Component.to_canonical_uri
    conventions = False
    doc = ('Component.to_canonical_uri, for every well-formed component (any type, any value bytes): the text is "<type>=" in '
           'decimal unless the type is 8, followed by the value bytes in order, each unreserved byte (letters, digits, - . _ ~) '
           'as itself and every other byte as %XX with upper-case hex digits (all 256 byte values checked against the real '
           'nested function); a malformed component raises ValueError / IndexError / struct.error exactly as specified')

    def setup(self, cx):
        p = _CompPrinter.setup(self, cx)
        _case_split(cx, p['component'], False)
        return p


@contract
class comp_to_str(_CompPrinter):
    fn = Component.to_str
    conventions = True
    doc = ('Component.to_str, for every well-formed component: types 1 and 2 print as sha256digest= / params-sha256= followed '
           'by the lower-case hex of every value byte; types 50, 52, 54, 56, 58 print as seg= off= v= t= seq= followed by the '
           'decimal big-endian value of the value bytes; every other type prints exactly as to_canonical_uri does')

    def setup(self, cx):
        p = _CompPrinter.setup(self, cx)
        _case_split(cx, p['component'], True)
        return p


# ----------------------------------------------------------------------------- Name printers
class _NamePrinter(Contract):
    props = ('C09',)
    element = None
    raises = {ValueError: lambda cx, **p: True, IndexError: lambda cx, **p: True, struct.error: lambda cx, **p: True,
              TypeError: lambda cx, **p: True}

    def setup(self, cx):
        cx.run.ghost['text_mode'] = True
        return dict(name=BufSeq.fresh(cx.run, 'name', 'bytearray'))

    def post(self, cx, result, name):
        loc = cx.it.top_locals
        nm = loc['name']
        ok = isinstance(nm, BufSeq)
        out = {'prints_the_normalised_component_list': ok}
        if not ok:
            return out
        h = cx.heap
        n = zint(nm.n)
        empty = simp(n) if isinstance(simp(n), int) else None
        g = as_parts(result)
        if g is None:
            return {'is_text': False}
        # the trailing slash: exactly when the last component is the empty generic component 08 00
        last_is_empty = And(n > 0, Eq(z3.Select(nm.lens, n - 1), 2), nm.elem(cx.it, n - 1).at(h, 0) == 8, nm.elem(cx.it, n - 1).at(h, 1) == 0)
        has_trailing = len(g) == 3 and g[2] == '/'
        body = g[:2]
        for k, v in text_eq(Text(body), ['/', JoinSeq('/', nm, type(self).element)]).items():
            out[k] = v
        out['trailing_slash_iff_last_component_is_empty'] = And(last_is_empty) if has_trailing else And(len(g) == 2, Not(last_is_empty))
        return out


@contract
class name_to_str(_NamePrinter):
    fn = Name.to_str
    element = Component.to_str
    doc = ('Name.to_str: "/" followed by Component.to_str of every component of the normalised name, in order, separated by "/" '
           '(any number of components), plus one more "/" exactly when the last component is the empty generic component')


@contract
class name_to_canonical_uri(_NamePrinter):
    fn = Name.to_canonical_uri
    element = Component.to_canonical_uri
    doc = ('Name.to_canonical_uri: "/" followed by Component.to_canonical_uri of every component of the normalised name, in '
           'order, separated by "/", plus one more "/" exactly when the last component is the empty generic component')
