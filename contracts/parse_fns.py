"""Contracts for parse_interest / parse_data / parse_lp_packet_v2 and the receive pipeline (_receive)."""
import struct
import logging
import z3
from ndn.encoding import ndn_format_0_3 as nf
from ndn.encoding import ndnlp_v2 as lp
from ndn.encoding import tlv_model as tm
from ndn import appv2, types
from pyvc.zutil import *
from pyvc.contracts import Contract, contract, LoopSpec
from pyvc.run import View, Unsupported
from pyvc.values import SymObj, SymStr, Opaque, PyExc
from pyvc.symseq import BufSeq
from contracts.parse_summary import parse_model, LazyParsed, PARSE_RAISES
from contracts.assumed_aio import Face, _M

DOCUMENTED = (tm.DecodeError, ValueError, IndexError, struct.error)       # "documented decoding errors"


class _ClassParse(Contract):
    """summary for the overriding classmethods InterestPacketValue.parse / DataPacketValue.parse"""
    assumed = True
    props = ()

    def apply_at(c, cx, p, node, site):
        cls, wire, markers = p['cls'], p['wire'], p.get('markers')
        if not isinstance(wire, View):
            cx.it.raise_(TypeError, 'a bytes-like object is required', node=node)
        return parse_model(cx.it, cls, wire, markers if markers is not None else {}, node, p.get('ignore_critical', False))


def strict_rule(cx, cls):
    """every parse of the packet model `cls` this decoder asked for was asked under the strict critical-bit rule
    (ignore_critical False): with the contract of TlvModel.parse an unrecognised, repeated or out-of-order critical element then
    is a DecodeError"""
    calls = [ic for k, ic in cx.run.ghost.get('parse.rule', []) if k is cls]
    return len(calls) >= 1 and all(ic is False for ic in calls)


def relaxed_rule(cx, cls):
    """every parse of the envelope model `cls` was asked to IGNORE unrecognised elements whatever their Type (ignore_critical
    True): unknown envelope headers are ignored, odd-typed ones included"""
    calls = [ic for k, ic in cx.run.ghost.get('parse.rule', []) if k is cls]
    return len(calls) >= 1 and all(ic is True for ic in calls)


def summarised_strict(cx, cls):
    """used by result(): a summarised decoder call stands for a strict parse of its packet model"""
    cx.run.ghost.setdefault('parse.rule', []).append((cls, False))


@contract
class interest_value_parse(_ClassParse):
    fn = nf.InterestPacketValue.parse.__func__


@contract
class data_value_parse(_ClassParse):
    fn = nf.DataPacketValue.parse.__func__


def relaxed_fields(cls, seen=None):
    """declaration walk over the live class: the nested-model fields reachable from `cls` that are declared with
    ignore_critical=True (ModelField.parse_from hands exactly that flag to the nested parser: contracts/fields2.py)"""
    seen = seen if seen is not None else set()
    if cls in seen:
        return []
    seen.add(cls)
    out = []
    for f in cls._encoded_fields:
        inner = f.element_type if isinstance(f, tm.RepeatedField) else f
        if isinstance(inner, tm.ModelField):
            if inner.ignore_critical:
                out.append(f'{cls.__name__}.{f.name}')
            out += relaxed_fields(inner.model_type, seen)
    return out


class _ParseFn(Contract):
    props = ('C07', 'C06', 'C01')
    raises = {e: (lambda cx, wire, with_tl=True: True) for e in DOCUMENTED}

    def setup(self, cx):
        k = cx.run.choose([('with_tl=True', True), ('with_tl=False', True)], 'with_tl')
        return dict(wire=cx.run.input_buf('wire', 'bytes'), with_tl=(k == 'with_tl=True'))

    def pre(c, cx, wire, with_tl):
        return isinstance(wire, View)


@contract
class parse_data(_ParseFn):
    fn = nf.parse_data
    doc = ('parse_data raises only documented decoding errors; when it accepts, the mandatory Name was present in the '
           'packet and name / content / signature pointers are views into the given wire')

    def post(c, cx, result, wire, with_tl):
        name, meta, content, sig = result
        out = {'mandatory_name_present': isinstance(name, BufSeq),
               'parsed_under_the_strict_critical_rule': strict_rule(cx, nf.DataPacketValue),
               'meta_info_is_model': isinstance(meta, (LazyParsed, SymObj)),
               'content_in_wire': content is None or (isinstance(content, View) and Eq(content.cell, wire.cell) is True)}
        return out

    def result(c, cx, wire, with_tl):
        from contracts.parse_summary import sub_view
        run = cx.run
        summarised_strict(cx, nf.DataPacketValue)
        name = BufSeq.fresh(run, 'name', 'memoryview')
        ck = run.choose([('content=None', True), ('content', True)], 'content')
        content = None if ck == 'content=None' else sub_view(run, wire, 'content')
        return (name, SymObj(nf.MetaInfo, {}), content, SymObj(nf.SignaturePtrs, dict(signature_info=None, signature_covered_part=[],
                                                                               signature_value_buf=None, digest_covered_part=[],
                                                                               digest_value_buf=None)))


@contract
class parse_interest(_ParseFn):
    fn = nf.parse_interest
    doc = ('parse_interest raises only documented decoding errors; when it accepts, the mandatory Name was present in the '
           'packet; parameters come from the packet, pointers are views into the given wire; no nested element of the '
           'Interest format is declared with a relaxed critical-bit rule')

    def post(c, cx, result, wire, with_tl):
        name, params, app_param, sig = result
        return {'mandatory_name_present': isinstance(name, BufSeq),
                'parsed_under_the_strict_critical_rule': strict_rule(cx, nf.InterestPacketValue),
                # declaration lemma (ground fact of the live classes): no element of an Interest is parsed under a relaxed
                # critical-bit rule, so with the contracts of TlvModel.parse (unrecognised critical element -> DecodeError
                # unless ignore_critical) and ModelField.parse_from (declared flag handed down) every unrecognised,
                # repeated or out-of-order critical element anywhere inside an accepted Interest is impossible
                'interest_format_declares_no_relaxed_criticality': relaxed_fields(nf.InterestPacket) == [],
                'params_object': isinstance(params, SymObj) and params.cls is nf.InterestParam,
                'app_param_in_wire': app_param is None or (isinstance(app_param, View) and Eq(app_param.cell, wire.cell) is True)}

    def result(c, cx, wire, with_tl):
        from contracts.parse_summary import sub_view
        run = cx.run
        summarised_strict(cx, nf.InterestPacketValue)
        name = BufSeq.fresh(run, 'name', 'memoryview')
        ak = run.choose([('app_param=None', True), ('app_param', True)], 'app_param')
        app_param = None if ak == 'app_param=None' else sub_view(run, wire, 'app_param')
        lk = run.choose([('lifetime=None', True), ('lifetime', True)], 'lifetime')
        lifetime = None
        if lk == 'lifetime':
            lifetime = run.fresh_int('lifetime')
            run.assume(z3.And(lifetime >= 0, lifetime < 2 ** 64))
        params = SymObj(nf.InterestParam, dict(can_be_prefix=run.fresh_bool('cbp'), must_be_fresh=run.fresh_bool('mbf'), nonce=None,
                                               lifetime=lifetime, hop_limit=None, forwarding_hint=[]))
        sk = run.choose([('unsigned', True), ('signed', True)], 'sig')
        sig = SymObj(nf.SignaturePtrs, dict(signature_info=None if sk == 'unsigned' else Opaque('token', 'siginfo'),
                                            signature_covered_part=[], signature_value_buf=None, digest_covered_part=[],
                                            digest_value_buf=None))
        return (name, params, app_param, sig)


@contract
class parse_lp_packet_v2(Contract):
    fn = lp.parse_lp_packet_v2
    props = ('C10', 'C06', 'C07')
    doc = ('parse_lp_packet_v2 raises only documented decoding errors; a recognised FragIndex / FragCount (fragmented '
           'envelope) is rejected with DecodeError; otherwise the LpPacketValue read from the wire is returned; the '
           'envelope class declares its headers in the NDNLPv2 wire order (increasing type, Fragment last), so the generic '
           'parser recognises every header of an envelope in that order')
    raises = {e: (lambda cx, wire, with_tl=True: True) for e in DOCUMENTED}

    def setup(self, cx):
        k = cx.run.choose([('with_tl=True', True), ('with_tl=False', True)], 'with_tl')
        return dict(wire=cx.run.input_buf('wire', 'bytes'), with_tl=(k == 'with_tl=True'))

    def pre(c, cx, wire, with_tl):
        return isinstance(wire, View)

    def post(c, cx, result, wire, with_tl):
        if not isinstance(result, LazyParsed):
            return {'returns_lp_packet_value': False}
        r = result
        fi, fc = r.getattr_(cx.it, 'frag_index', None), r.getattr_(cx.it, 'frag_count', None)
        # declaration lemma (ground fact read from the live class on every run): NDNLPv2 sends the headers in increasing
        # TLV-TYPE order and the Fragment last; with TlvModel.parse matching an element to the first field of its type at
        # or after the current position (contracts/model.py), every recognised header of such an envelope is matched
        # - FragIndex / FragCount in particular - only if the fields are declared in that same order
        fs = [f for f in lp.LpPacketValue._encoded_fields if not isinstance(f, tm.ProcedureArgument)]
        heads = [f.type_num for f in fs[:-1]]
        return {'is_lp_packet_value': r.cls is lp.LpPacketValue,
                'unknown_headers_of_any_type_are_ignored': relaxed_rule(cx, lp.LpPacketValue),
                'fragmented_envelope_rejected': And(fi.isnone, fc.isnone),
                'envelope_headers_declared_in_wire_order_fragment_last':
                    len(fs) >= 1 and fs[-1].type_num == lp.LpTypeNumber.FRAGMENT
                    and all(a < b for a, b in zip(heads, heads[1:]))}

    def result(c, cx, wire, with_tl):
        from pyvc.values import OptInt
        inst = LazyParsed(cx.run, lp.LpPacketValue, wire, {})
        cx.run.ghost.setdefault('parse.rule', []).append((lp.LpPacketValue, True))     # a summarised call stands for a relaxed parse
        inst.cache['frag_index'] = OptInt(True, 0)
        inst.cache['frag_count'] = OptInt(True, 0)
        cx.run.ghost['lp.parsed'] = inst          # ghost: the envelope as decoded, for the postconditions of its callers
        return inst


# ----------------------------------------------------------------------------- receive pipeline (appv2)
def _record(cx, what, *args):
    cx.run.ghost.setdefault('recv.calls', []).append((what,) + args)


@contract
class v2_on_nack_summary(Contract):
    """call-site summary (raises nothing); the function itself is verified in contracts/pit.py"""
    fn = appv2.NDNApp._on_nack
    assumed = True

    def result(c, cx, self, name, nack_reason):
        _record(cx, '_on_nack', name, nack_reason)
        return None


@contract
class v2_on_data_summary(Contract):
    fn = appv2.NDNApp._on_data
    assumed = True

    def result(c, cx, self, name, meta_info, content, sig, raw_packet):
        _record(cx, '_on_data', name, raw_packet)
        return None


def mk_recv_app(cx, cls=appv2.NDNApp, logger='ndn.appv2'):
    return SymObj(cls, dict(logger=logging.getLogger(logger), face=Face(cx.run), _fib=None, _pit=None, _int_tree=None,
                            _prefix_tree=None, registerer=None, _autoreg_routes=[], data_validator=None, int_validator=None))


@contract
class v2_receive(Contract):
    fn = appv2.NDNApp._receive
    props = ('C06', 'C10', 'C03')
    doc = ('appv2 _receive: whatever bytes a transport delivers, reception returns normally (no exception escapes) and the '
           'packet is dropped or dispatched; an envelope with a Nack header leads to exactly one _on_nack(name of the '
           'fragment, precisely the reason code of that header - NONE when it has none) and nothing else; an envelope without Nack dispatches the fragment by its own type exactly '
           'as the bare packet would be')
    raises = {}

    def setup(self, cx):
        t = cx.run.input_int('typ')
        cx.run.assume(And(t >= 0, t < 2 ** 64))
        cx.run.ghost['recv.oi'] = []
        return dict(self=mk_recv_app(cx), typ=t, data=cx.run.input_buf('data', 'bytes'))

    def post(c, cx, result, self, typ, data):
        calls = cx.run.ghost.get('recv.calls', [])
        oi = cx.run.ghost.get('recv.on_interest_calls', [])
        out = {'returns_none': result is None,
               'at_most_one_dispatch': len(calls) + len(oi) <= 1}
        # a wrapped network packet is processed exactly as the same packet received bare: what is handed on as the raw
        # packet (its hash decides implicit-digest Interests) is the network packet itself, not the envelope
        inst0 = cx.run.ghost.get('lp.parsed')
        want_raw = inst0.cache.get('fragment') if inst0 is not None else data
        for what, *a in calls:
            if what == '_on_data':
                out['raw_packet_is_the_network_packet_itself'] = a[1] is want_raw
        for what, *a in calls:
            if what == '_on_nack':
                from pyvc.values import OptInt
                out['nack_reason_is_an_integer'] = is_symint(a[1]) or isinstance(a[1], (int, OptInt))
                # precisely the reason code carried by the envelope's Nack header (NONE = 0 when the header has no reason)
                inst = cx.run.ghost.get('lp.parsed')
                nk = inst.cache.get('nack') if inst is not None else None
                hdr = nk.cache.get('nack_reason') if isinstance(nk, LazyParsed) else None
                if isinstance(hdr, OptInt):
                    r = a[1]
                    if r is hdr:
                        out['nack_reason_is_precisely_the_header_value'] = Not(hdr.isnone)
                    elif isinstance(r, OptInt):
                        out['nack_reason_is_precisely_the_header_value'] = And(Not(hdr.isnone), Not(r.isnone), Eq(zint(r.val), zint(hdr.val)))
                    else:
                        out['nack_reason_is_precisely_the_header_value'] = Or(And(hdr.isnone, Eq(zint(r), 0)),
                                                                               And(Not(hdr.isnone), Eq(zint(r), zint(hdr.val))))
                else:
                    out['nack_reason_is_precisely_the_header_value'] = False
        return out


# ----------------------------------------------------------------------------- legacy front-end
from ndn import app as app1


@contract
class parse_lp_packet(Contract):
    fn = lp.parse_lp_packet
    props = ('C10', 'C06')
    doc = 'parse_lp_packet returns (Nack reason or None, fragment or None) of the envelope; documented decoding errors only'
    raises = {e: (lambda cx, wire, with_tl=True: True) for e in DOCUMENTED}

    def setup(self, cx):
        k = cx.run.choose([('with_tl=True', True), ('with_tl=False', True)], 'with_tl')
        return dict(wire=cx.run.input_buf('wire', 'bytes'), with_tl=(k == 'with_tl=True'))

    def pre(c, cx, wire, with_tl):
        return isinstance(wire, View)

    def post(c, cx, result, wire, with_tl):
        from pyvc.values import OptInt
        reason, frag = result
        out = {'reason_is_optional_int': reason is None or isinstance(reason, (OptInt, int)) or is_symint(reason),
               'unknown_headers_of_any_type_are_ignored': relaxed_rule(cx, lp.LpPacketValue),
               'fragment_is_view_of_wire': frag is None or (isinstance(frag, View) and Eq(frag.cell, wire.cell) is True)}
        # the reason is precisely what the envelope carries: None without a Nack header, the header's code, 0 if it has none
        inst = cx.run.ghost.get('lp.parsed')
        if inst is not None and 'nack' in inst.cache:
            nk = inst.cache['nack']
            if not isinstance(nk, LazyParsed):
                out['no_nack_header_means_no_reason'] = reason is None
            else:
                hdr = nk.cache.get('nack_reason')
                if reason is hdr and isinstance(hdr, OptInt):
                    out['reason_is_precisely_the_header_value'] = Not(hdr.isnone)
                elif isinstance(hdr, OptInt) and reason is not None and not isinstance(reason, OptInt):
                    out['reason_is_precisely_the_header_value'] = Or(And(hdr.isnone, Eq(zint(reason), 0)),
                                                                      And(Not(hdr.isnone), Eq(zint(reason), zint(hdr.val))))
                else:
                    out['reason_is_precisely_the_header_value'] = False
        return out

    def result(c, cx, wire, with_tl):
        from contracts.parse_summary import sub_view
        from pyvc.values import OptInt
        run = cx.run
        run.ghost.setdefault('parse.rule', []).append((lp.LpPacketValue, True))     # a summarised call stands for a relaxed parse
        v = run.fresh_int('nack_reason')
        run.assume(z3.And(v >= 0, v < 2 ** 64))
        fk = run.choose([('fragment=None', True), ('fragment', True)], 'fragment')
        return (OptInt(run.fresh_bool('no_nack'), v), None if fk == 'fragment=None' else sub_view(run, wire, 'fragment'))


for _n in ('_on_nack', '_on_data', '_on_interest'):
    def _mk(n):
        class _S(Contract):
            fn = getattr(app1.NDNApp, n)
            assumed = True

            def result(c, cx, **p):
                _record(cx, n, p.get('name'), p.get('nack_reason'))
                return None
        _S.__name__ = 'v1' + n + '_summary'
        return contract(_S)
    _mk(_n)


@contract
class v1_receive(Contract):
    fn = app1.NDNApp._receive
    props = ('C06', 'C10')
    doc = ('legacy _receive: whatever bytes a transport delivers, reception returns normally (no exception escapes); an '
           'envelope with a Nack header leads to exactly one _on_nack and nothing else; at most one dispatch per packet')
    raises = {}

    def setup(self, cx):
        t = cx.run.input_int('typ')
        cx.run.assume(And(t >= 0, t < 2 ** 64))
        return dict(self=mk_recv_app(cx, app1.NDNApp, 'ndn.app'), typ=t, data=cx.run.input_buf('data', 'bytes'))

    def post(c, cx, result, self, typ, data):
        calls = cx.run.ghost.get('recv.calls', [])
        return {'returns_none': result is None, 'at_most_one_dispatch': len(calls) <= 1}


# ----------------------------------------------------------------------------- parse_network_nack, parse_certificate
from ndn.app_support import security_v2 as sv      # noqa: E402

@contract
class parse_network_nack(Contract):
    fn = lp.parse_network_nack
    props = ('C10', 'C07')
    doc = ('parse_network_nack raises only documented decoding errors; it returns (reason, fragment) read from the envelope when a Nack '
           'header is present and (None, None) otherwise')
    raises = {e: (lambda cx, wire, with_tl=True: True) for e in DOCUMENTED}

    def setup(self, cx):
        k = cx.run.choose([('with_tl=True', True), ('with_tl=False', True)], 'with_tl')
        return dict(wire=cx.run.input_buf('wire', 'bytes'), with_tl=(k == 'with_tl=True'))

    def pre(c, cx, wire, with_tl):
        return isinstance(wire, View)

    def post(c, cx, result, wire, with_tl):
        ok = isinstance(result, tuple) and len(result) == 2
        out = {'returns_a_pair': ok, 'unknown_headers_of_any_type_are_ignored': relaxed_rule(cx, lp.LpPacketValue)}
        if ok:
            reason, frag = result
            out['without_nack_header_both_none_with_one_the_fragment_of_this_envelope'] = (reason is None and frag is None) or \
                (frag is None or (isinstance(frag, View) and Eq(frag.cell, wire.cell) is True))
        return out


@contract
class parse_certificate(Contract):
    fn = sv.parse_certificate
    props = ('C07', 'C16')
    doc = ('parse_certificate raises only documented decoding errors (Type must be Data, lengths must agree, the mandatory Name must be '
           'present); what it returns is a CertificateV2Value read from this wire that has a Name, parsed under the strict critical-bit rule')
    raises = {e: (lambda cx, wire: True) for e in DOCUMENTED}
    # C16 speaks of issued certificates only (those parse the same under either rule); which packets are refused is C07's
    clause_props = {'parsed_under_the_strict_critical_rule': ('C07',)}

    def setup(self, cx):
        return dict(wire=cx.run.input_buf('wire', 'bytes'))

    def pre(c, cx, wire):
        return isinstance(wire, View)

    def post(c, cx, result, wire):
        ok = isinstance(result, LazyParsed)
        out = {'returns_a_certificate_value': ok and result.cls is sv.CertificateV2Value,
               'parsed_under_the_strict_critical_rule': strict_rule(cx, sv.CertificateV2Value)}
        if ok:
            out['mandatory_name_present'] = result.getattr_(cx.it, '__dict__', None).contains(cx.it, 'name', None)
        return out
