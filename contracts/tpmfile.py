"""Contracts for security/tpm/tpm_file.py (property C15: private keys live in files named after the key; deleting a key removes
its file; a signer signs with the key stored for exactly that key name).  The file system, base64, SHA-256 and the signer
classes are ASSUMED interfaces: a ghost file system keyed by the (injective, uninterpreted) file name of a key name."""
import os
import z3
import contracts.clientconf      # noqa: F401  (its os.path / open models are chained below)
from base64 import b64decode, b64encode
from ndn.security.tpm import tpm_file as tf
from ndn.security.signer.sha256_rsa_signer import Sha256WithRsaSigner
from ndn.security.signer.sha256_ecdsa_signer import Sha256WithEcdsaSigner
from ndn.encoding.name import Name
from pyvc.zutil import *
from pyvc.contracts import Contract, contract
from pyvc.run import Unsupported
from pyvc.values import SymObj, Opaque, PyExc
from contracts.assumed_aio import _M
from contracts.keychain import NameVal


class FileName:
    def __init__(self, ident):
        self.ident = ident


class PathTok:
    def __init__(self, directory, fname):
        self.directory, self.fname = directory, fname


class Fs:
    def __init__(self, run):
        self.run = run
        self.exists = {}            # ident -> bool decided lazily
        self.log = []

    def has(self, ident):
        if ident not in self.exists:
            self.exists[ident] = self.run.choose([(False, True), (True, True)], f'file of {ident} exists')
        return self.exists[ident]


def fs(it):
    f = it.run.ghost.get('tpm.fs')
    if f is None:
        raise Unsupported('file system access outside a tpm contract')
    return f


@contract
class encode_tok(Contract):
    fn = Name.encode
    assumed = True

    def use_contract_at(c, it, args, kwargs):
        return isinstance(args[0], NameVal) and len(args) == 1

    def result(c, cx, name, buf=None, offset=0):
        return NameVal(name.base, name.drop, 'bytes')


@contract
class to_file_name(Contract):
    """ASSUMED: the file name is an injective function (hex SHA-256) of the encoded key name"""
    fn = tf.TpmFile._to_file_name
    assumed = True

    def use_contract_at(c, it, args, kwargs):
        return isinstance(args[0], NameVal)

    def result(c, cx, key_name):
        return FileName(key_name.ident)


class FileObj:
    def __init__(self, fsys, path, mode):
        self.fsys, self.path, self.mode = fsys, path, mode

    def getattr_(self, it, name, node):
        if name == '__enter__':
            return _M(lambda it_: self)
        if name == '__exit__':
            return _M(lambda it_, *a: False)
        if name == 'read':
            def read(it_):
                self.fsys.log.append(('read', self.path.fname.ident))
                return Opaque('b64', f'content of {self.path.fname.ident}')
            return _M(read)
        if name == 'write':
            def write(it_, data):
                self.fsys.log.append(('write', self.path.fname.ident, data))
                self.fsys.exists[self.path.fname.ident] = True
            return _M(write)
        raise Unsupported(f'file.{name}')


def _signer_model(kind):
    def m(it, args, kwargs, node):
        f = fs(it)
        if it.run.branch(it.run.fresh_bool(f'not_a_{kind}_key'), f'{kind}.rejects_key'):
            raise PyExc(ValueError, (f'not a {kind} key',), getattr(node, 'lineno', None), it.where())
        s = Opaque('signer', f'{kind} signer')
        s.d.update(kind=kind, locator=args[0], der=args[1])
        return s
    return m


def _install():
    from pyvc import models
    R, Bm = models.REAL_FUNCTION_MODELS, models.BUILTIN_MODELS
    old_join, old_exists = R.get(os.path.join), R.get(os.path.exists)

    def m_join(it, a, k, n):
        if len(a) == 2 and isinstance(a[1], FileName):
            return PathTok(a[0], a[1])
        if old_join is None:
            raise Unsupported('os.path.join outside its models')
        return old_join(it, a, k, n)

    def m_exists(it, a, k, n):
        if isinstance(a[0], PathTok):
            f = fs(it)
            f.log.append(('exists?', a[0].fname.ident))
            return f.has(a[0].fname.ident)
        if old_exists is None:
            raise Unsupported('os.path.exists outside its models')
        return old_exists(it, a, k, n)
    R[os.path.join], R[os.path.exists] = m_join, m_exists

    def m_remove(it, a, k, n):
        f = fs(it)
        p = a[0]
        if not isinstance(p, PathTok):
            raise Unsupported('os.remove of an unknown path')
        f.log.append(('remove', p.fname.ident))
        if not f.has(p.fname.ident):
            it.raise_(FileNotFoundError, 'no such file', node=n)
        f.exists[p.fname.ident] = False
    R[os.remove] = m_remove
    Bm[os.remove] = m_remove
    old_open = Bm.get(open)

    def m_open(it, a, k, n):
        if isinstance(a[0], PathTok):
            return FileObj(fs(it), a[0], a[1] if len(a) > 1 else 'r')
        if old_open is None:
            raise Unsupported('open() outside its models')
        return old_open(it, a, k, n)
    Bm[open] = m_open

    def m_b64decode(it, a, k, n):
        o = Opaque('der', 'decoded key')
        o.d['of'] = a[0]
        return o
    R[b64decode] = m_b64decode

    def m_b64encode(it, a, k, n):
        o = Opaque('b64', 'encoded key')
        o.d['of'] = a[0]
        return o
    R[b64encode] = m_b64encode
    Bm[Sha256WithRsaSigner] = _signer_model('rsa')
    Bm[Sha256WithEcdsaSigner] = _signer_model('ecdsa')


_install()


@contract
class base64_newline(Contract):
    fn = tf.TpmFile._base64_newline
    assumed = True

    def use_contract_at(c, it, args, kwargs):
        return isinstance(args[0], Opaque)

    def result(c, cx, src):
        o = Opaque('b64', 'wrapped base64')
        o.d['of'] = src
        return o


def mk(cx):
    run = cx.run
    f = Fs(run)
    run.ghost['tpm.fs'] = f
    return SymObj(tf.TpmFile, dict(path=Opaque('dir', 'tpm directory'))), f


@contract
class tpm_get_signer(Contract):
    fn = tf.TpmFile.get_signer
    props = ('C15',)
    doc = ('TpmFile.get_signer(key, locator): KeyError when the file of exactly this key name does not exist; otherwise the signer is '
           'built from the content of that file (RSA tried first, then ECDSA; ValueError if neither accepts it) and names the given key '
           'locator, or the key name itself when none is given')
    raises = {KeyError: lambda cx, **p: True, ValueError: lambda cx, **p: True}

    def setup(self, cx):
        self_, f = mk(cx)
        lk = cx.run.choose([('locator', True), ('locator=None', True)], 'key_locator_name')
        return dict(self=self_, key_name=NameVal('key'), key_locator_name=NameVal('locator') if lk == 'locator' else None)

    def post(c, cx, result, self, key_name, key_locator_name):
        f = cx.run.ghost['tpm.fs']
        ident = key_name.ident
        ok = isinstance(result, Opaque) and result.typ == 'signer'
        out = {'returns_a_signer': ok, 'file_of_this_key_existed_and_was_read': f.exists.get(ident) is True and ('read', ident) in f.log and
               all(x[1] == ident for x in f.log)}
        if ok:
            der = result.d['der']
            out['signer_uses_the_decoded_content_of_that_file'] = isinstance(der, Opaque) and der.typ == 'der' and \
                isinstance(der.d['of'], Opaque) and der.d['of'].typ == 'b64'
            loc = result.d['locator']
            out['names_the_given_locator_or_the_key_itself'] = (loc is key_locator_name) if key_locator_name is not None else \
                (isinstance(loc, NameVal) and loc.ident == ident)
        return out

    def xpost(c, cx, exc, self, key_name, key_locator_name):
        f = cx.run.ghost['tpm.fs']
        if exc.cls is KeyError:
            return {'only_when_the_file_of_this_key_is_missing': f.exists.get(key_name.ident) is False and not any(x[0] == 'read' for x in f.log)}
        return {'only_when_neither_signer_accepts_the_key': f.exists.get(key_name.ident) is True}


@contract
class tpm_key_exist(Contract):
    fn = tf.TpmFile.key_exist
    props = ('C15',)
    doc = 'TpmFile.key_exist(key): True iff the file named after exactly this key name exists'
    raises = {}

    def setup(self, cx):
        self_, f = mk(cx)
        return dict(self=self_, key_name=NameVal('key', form='formal'))

    def post(c, cx, result, self, key_name):
        f = cx.run.ghost['tpm.fs']
        return {'answers_for_the_file_of_this_key': f.log == [('exists?', key_name.ident)] and result is f.exists[key_name.ident]}


@contract
class tpm_save_key(Contract):
    fn = tf.TpmFile.save_key
    props = ('C15',)
    doc = 'TpmFile.save_key(key, der): the base64 text of exactly these key bits is written to the file named after exactly this key name'
    raises = {}

    def setup(self, cx):
        self_, f = mk(cx)
        return dict(self=self_, key_name=NameVal('key', form='formal'), key_der=Opaque('der', 'key bits'))

    def post(c, cx, result, self, key_name, key_der):
        f = cx.run.ghost['tpm.fs']
        w = [x for x in f.log if x[0] == 'write']
        ok = len(w) == 1 and w[0][1] == key_name.ident
        out = {'one_write_to_the_file_of_this_key': ok and all(x[1] == key_name.ident for x in f.log)}
        if ok:
            d = w[0][2]
            out['content_is_base64_of_these_key_bits'] = isinstance(d, Opaque) and d.typ == 'b64' and isinstance(d.d['of'], Opaque) and \
                d.d['of'].typ == 'b64' and d.d['of'].d['of'] is key_der
        return out


@contract
class tpm_delete_key(Contract):
    fn = tf.TpmFile.delete_key
    props = ('C15',)
    doc = ('TpmFile.delete_key(key): the file named after exactly this key name is removed and no other file is touched; a key without '
           'file is not an error')
    raises = {}

    def setup(self, cx):
        self_, f = mk(cx)
        return dict(self=self_, key_name=NameVal('key', form='formal'))

    def post(c, cx, result, self, key_name):
        f = cx.run.ghost['tpm.fs']
        return {'file_of_this_key_is_gone': f.exists.get(key_name.ident) is False,
                'nothing_else_touched': f.log == [('remove', key_name.ident)]}
