"""Contracts for the legacy front-end's registration API (ndn/app.py; properties C04, C17): set_interest_filter,
unset_interest_filter, register, unregister - against the assumed trie (contracts/fib.py), an assumed express_interest and
the assumed layout of make_command (its v2 core is verified in contracts/nfdreg.py)."""
import asyncio
import struct
import z3
from ndn import app as app1, types
from ndn.app_support import nfd_mgmt
from ndn.encoding import tlv_model as tm
from pyvc.zutil import *
from pyvc.contracts import Contract, contract
from pyvc.run import Unsupported
from pyvc.values import SymObj, Opaque, PyExc, CoroVal
from contracts.assumed_aio import _M, UserFn, Face
from contracts.fib import FibModel, NameId, others_untouched
from contracts.nfdreg import Semaphore
import logging

HANDLED = (types.InterestNack, types.InterestTimeout, types.InterestCanceled, types.ValidationFailure)


def mk_app(cx, fib, sem=None):
    return SymObj(app1.NDNApp, dict(logger=logging.getLogger('ndn.app'), face=Face(cx.run, True), _prefix_tree=fib, _int_tree=None,
                                    _prefix_register_semaphore=sem, _autoreg_routes=[]))


@contract
class set_interest_filter(Contract):
    fn = app1.NDNApp.set_interest_filter
    props = ('C04',)
    doc = ('legacy set_interest_filter: a prefix that already has a handler is refused with ValueError and nothing changes; otherwise '
           'exactly that prefix gets this handler, the extras it asked for and (when given) this validator; other prefixes untouched')
    exact_raises = True
    raises = {ValueError: lambda cx, self, name, func, validator, need_raw_packet, need_sig_ptrs: (lambda f: z3.And(
        z3.Select(f.dom0, zint(name.kid)), z3.Select(f.cb0, zint(name.kid))))(cx.run.ghost['fib'])}

    def setup(self, cx):
        run = cx.run
        fib = FibModel(run)
        run.ghost['fib'] = fib
        vk = run.choose([('validator', True), ('validator=None', True)], 'validator')
        return dict(self=mk_app(cx, fib), name=NameId(run.input_int('name_id')), func=UserFn('handler'),
                    validator=UserFn('validator') if vk == 'validator' else None,
                    need_raw_packet=run.choose([(False, True), (True, True)], 'need_raw_packet'),
                    need_sig_ptrs=run.choose([(False, True), (True, True)], 'need_sig_ptrs'))

    def xpost(c, cx, e, self, name, func, validator, need_raw_packet, need_sig_ptrs):
        f = cx.run.ghost['fib']
        j = z3.Int('j!x')
        return {'refused_registration_changes_nothing': z3.And(f.writes == [], z3.ForAll([j], z3.And(
            z3.Select(f.dom, j) == z3.Select(f.dom0, j), z3.Select(f.has_cb, j) == z3.Select(f.cb0, j))))}

    def post(c, cx, result, self, name, func, validator, need_raw_packet, need_sig_ptrs):
        f = cx.run.ghost['fib']
        k = zint(name.kid)
        want = [('callback', name.kid, func), ('extra_param', name.kid, {'raw_packet': need_raw_packet, 'sig_ptrs': need_sig_ptrs})]
        if validator is not None:
            want.append(('validator', name.kid, validator))
        return {'prefix_now_has_a_handler': z3.And(z3.Select(f.dom, k), z3.Select(f.has_cb, k)),
                'handler_extras_and_validator_stored_there': f.writes == want,
                'other_prefixes_untouched': others_untouched(f, k)}


@contract
class unset_interest_filter(Contract):
    fn = app1.NDNApp.unset_interest_filter
    props = ('C04',)
    doc = 'legacy unset_interest_filter removes exactly that prefix (KeyError if absent); every other prefix is untouched'
    exact_raises = True
    raises = {KeyError: lambda cx, self, name: z3.Not(z3.Select(cx.run.ghost['fib'].dom0, zint(name.kid)))}

    def setup(self, cx):
        fib = FibModel(cx.run)
        cx.run.ghost['fib'] = fib
        return dict(self=mk_app(cx, fib), name=NameId(cx.run.input_int('name_id')))

    def post(c, cx, result, self, name):
        f = cx.run.ghost['fib']
        k = zint(name.kid)
        return {'prefix_removed': z3.And(z3.Not(z3.Select(f.dom, k)), z3.Not(z3.Select(f.has_cb, k))),
                'other_prefixes_untouched': others_untouched(f, k)}


# ----------------------------------------------------------------------------- register / unregister
@contract
class express_interest_assumed(Contract):
    """ASSUMED (property C03): express_interest sends the Interest at once and returns a coroutine that yields (name, meta,
    content) of matching Data or raises one of the four outcomes"""
    fn = app1.NDNApp.express_interest
    assumed = True

    def use_contract_at(c, it, args, kwargs):
        return 'reg1' in it.run.ghost

    def apply_at(c, cx, p, node, site):
        it, run = cx.it, cx.run
        g = run.ghost['reg1']
        g['calls'].append((p, g['sem'].held))

        def thunk():
            tag = run.choose([('reply', True)] + [(e, True) for e in HANDLED], 'forwarder')
            if tag != 'reply':
                raise PyExc(tag, ('no usable reply',), getattr(node, 'lineno', None), it.where())
            g['replied'] = True
            ck = run.choose([('content', True), ('no content', True)], 'reply content')
            return (Opaque('token', 'dname'), Opaque('token', 'meta'), run.input_buf('reply', 'bytes') if ck == 'content' else None)
        return CoroVal(thunk, 'express_interest')


@contract
class make_command_assumed(Contract):
    fn = nfd_mgmt.make_command
    assumed = True

    def use_contract_at(c, it, args, kwargs):
        return 'reg1' in it.run.ghost

    def result(c, cx, module, command, face, kwargs):
        r = Opaque('command_name', f'{module}/{command}')
        r.d.update(module=module, command=command, face=face, kwargs=kwargs)
        return r


class _RegBase(Contract):
    props = ('C17',)
    command = 'register'

    def mk(self, cx):
        run = cx.run
        fib = FibModel(run)
        run.ghost['fib'] = fib
        sem = Semaphore()
        run.ghost['reg1'] = dict(calls=[], sem=sem)
        return mk_app(cx, fib, sem), fib, sem

    @staticmethod
    def cancelled(cx, *a, **p):
        return cx.run.ghost['reg1']['sem'].cancelled

    def cancel_xpost(c, cx):
        g = cx.run.ghost['reg1']
        # one at a time, whatever happens to the callers: who never got the permit does not hand one out, and sends nothing
        return {'a_caller_cancelled_while_queued_leaves_the_permits_alone': g['sem'].log == [] and g['sem'].held == 0,
                'a_caller_cancelled_while_queued_sends_no_command': g['calls'] == []}

    def common(c, cx, result, self, name):
        g = cx.run.ghost['reg1']
        sem = g['sem']
        out = {'exactly_one_command': len(g['calls']) == 1,
               'semaphore_released': sem.held == 0 and sem.log == ['acquire', 'release']}
        if len(g['calls']) == 1:
            p, held = g['calls'][0]
            cmd = p.get('name')
            ok = isinstance(cmd, Opaque) and cmd.typ == 'command_name'
            out['command_sent_while_holding_the_semaphore'] = held == 1
            out['command_names_this_prefix'] = ok and cmd.d['module'] == 'rib' and cmd.d['command'] == c.command and \
                cmd.d['kwargs'].get('name') is name and cmd.d['face'] is self.d['face']
            out['one_second_lifetime'] = p.get('kwargs', {}).get('lifetime') == 1000
        sc = cx.run.ghost.get('resp.status_code')
        if sc is not None and g.get('replied'):
            out['success_iff_status_200'] = Iff(cx.it.truth(result), And(Not(sc.isnone), zint(sc.val) == 200))
        else:
            out['no_decodable_reply_means_failure'] = result is False
        return out


@contract
class register_v1(_RegBase):
    fn = app1.NDNApp.register
    command = 'register'
    doc = ('legacy register: with a handler, the handler is installed first (a duplicate is refused with ValueError before any '
           'command is sent); then exactly one rib/register command naming the prefix is expressed with a 1 s lifetime while holding '
           'the semaphore; True iff the reply decodes to status 200; Nack, timeout, cancellation, validation failure, an '
           'undecodable reply or another status give False; nothing else is raised')
    raises = {ValueError: lambda cx, self, name, func, **p: func is not None,
              # a caller cancelled while it is still queued for the semaphore sees its CancelledError
              asyncio.CancelledError: _RegBase.cancelled}

    def setup(self, cx):
        run = cx.run
        app_, fib, sem = self.mk(cx)
        fk = run.choose([('handler', True), ('func=None', True)], 'func')
        return dict(self=app_, name=NameId(run.input_int('name_id')), func=UserFn('handler') if fk == 'handler' else None,
                    validator=None, need_raw_packet=False, need_sig_ptrs=False)

    def xpost(c, cx, e, self, name, func, validator, need_raw_packet, need_sig_ptrs):
        g = cx.run.ghost['reg1']
        f = cx.run.ghost['fib']
        if issubclass(e.cls, asyncio.CancelledError):
            return c.cancel_xpost(cx)
        return {'duplicate_refused_before_any_command': g['calls'] == [] and f.writes == [] and
                z3.And(z3.Select(f.dom0, zint(name.kid)), z3.Select(f.cb0, zint(name.kid)))}

    def post(c, cx, result, self, name, func, validator, need_raw_packet, need_sig_ptrs):
        out = c.common(cx, result, self, name)
        f = cx.run.ghost['fib']
        if func is not None:
            out['handler_installed_at_this_prefix'] = len(f.writes) >= 1 and f.writes[0] == ('callback', name.kid, func)
        else:
            out['no_handler_no_table_change'] = f.writes == [] and f.dom is f.dom0
        return out


@contract
class unregister_v1(_RegBase):
    fn = app1.NDNApp.unregister
    command = 'unregister'
    doc = ('legacy unregister: the handler of exactly this prefix is removed (none is not an error), then exactly one rib/unregister '
           'command naming the prefix is expressed (1 s lifetime, semaphore held); True iff the reply decodes to status 200, False '
           'for every other outcome; nothing is raised')
    raises = {asyncio.CancelledError: _RegBase.cancelled}

    def xpost(c, cx, e, self, name):
        return c.cancel_xpost(cx)

    def setup(self, cx):
        app_, fib, sem = self.mk(cx)
        return dict(self=app_, name=NameId(cx.run.input_int('name_id')))

    def post(c, cx, result, self, name):
        out = c.common(cx, result, self, name)
        f = cx.run.ghost['fib']
        k = zint(name.kid)
        out['handler_of_this_prefix_removed_others_untouched'] = z3.And(z3.Not(z3.Select(f.dom, k)), others_untouched(f, k))
        return out
