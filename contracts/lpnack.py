"""Contract for ndnlp_v2.make_network_nack (property C10): the exact layout of a Nack envelope (LpPacket field list unrolled)."""
import z3
from ndn.encoding import ndnlp_v2 as lp
from pyvc.zutil import *
from pyvc.contracts import Contract, contract
from pyvc.run import View
from contracts.name import bytes_equal
from contracts.fields2 import is_plain_model      # noqa: F401  (registers the unrolling of plain shipped models)
from spec.tlv import *


@contract
class make_network_nack(Contract):
    fn = lp.make_network_nack
    props = ('C10',)
    doc = ('make_network_nack(interest, reason), every reason 0 <= r < 2^64 and every Interest: the result is exactly '
           '64 L ( fd 03 20 |n| ( fd 03 21 w r ) ) ( 50 |i| i ) with shortest-form lengths, the reason in the smallest legal '
           'integer width w and the Interest bytes unmodified')
    raises = {}

    def setup(self, cx):
        run = cx.run
        r = run.input_int('nack_reason')
        interest = run.input_buf('encoded_interest', 'bytes')
        return dict(encoded_interest=interest, nack_reason=r)

    def build(self, i):
        return (bytes.fromhex(i['encoded_interest']['hex']), i['nack_reason']), {}

    def pre(c, cx, encoded_interest, nack_reason):
        return And(zint(nack_reason) >= 0, zint(nack_reason) < 2 ** 64, zint(encoded_interest.length) < 2 ** 16)

    def post(c, cx, result, encoded_interest, nack_reason):
        h = cx.heap
        if not isinstance(result, View):
            return {'returns_bytes': False}
        w = uint_width(zint(nack_reason))
        nack_inner = 3 + 1 + w                     # fd 03 21, length byte, value
        il = zint(encoded_interest.length)
        inner = 3 + 1 + nack_inner + 1 + tlsize(il) + il
        p0 = 1 + tlsize(inner)                     # start of the Nack element
        p1 = p0 + 3 + 1                            # start of the NackReason element
        p2 = p1 + 3 + 1                            # reason value
        p3 = p2 + w                                # Fragment element
        p4 = p3 + 1 + tlsize(il)
        reason_val = z3.If(w == 1, be(h, result, p2, 1), z3.If(w == 2, be(h, result, p2, 2), z3.If(w == 4, be(h, result, p2, 4), be(h, result, p2, 8))))
        return {'exact_size': Eq(result.length, 1 + tlsize(inner) + inner),
                'outer_element': And(result.at(h, 0) == 0x64, tlenc_at(h, result, 1, inner)),
                'nack_header': And(result.at(h, p0) == 0xFD, result.at(h, p0 + 1) == 0x03, result.at(h, p0 + 2) == 0x20,
                                   result.at(h, p0 + 3) == nack_inner),
                'nack_reason_element': And(result.at(h, p1) == 0xFD, result.at(h, p1 + 1) == 0x03, result.at(h, p1 + 2) == 0x21,
                                           result.at(h, p1 + 3) == w, reason_val == zint(nack_reason)),
                'fragment_is_the_interest_unmodified': And(result.at(h, p3) == 0x50, tlenc_at(h, result, p3 + 1, il),
                                                           bytes_equal(h, result, p4, cx.old_heap, encoded_interest, 0, il))}
