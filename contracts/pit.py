"""Contracts for the pending-Interest table node of ndn/appv2.py (property C03): InterestTreeNode.nack_interest / satisfy /
timeout / cancel / append_interest, for a pending list of ANY length.

Model.  pending_list is an abstract list (PList) of n entries; entry a is known through ghost functions of its index
(digest equal to the Nack's digest, can_be_prefix, ...).  The mutable state of the entries' futures and tasks is a ghost
world of arrays indexed by ENTRY INDEX (ASSUMED: the futures of distinct pending entries are distinct objects - express
creates a fresh future per Interest).  A list built by appending selected entries in iteration order, or by a filtering
comprehension, is a SubList: the in-order sub-sequence of the entries a with kept[a]."""
import asyncio
import z3
from ndn import appv2, types
from pyvc.zutil import *
from pyvc.contracts import Contract, contract, LoopSpec
from pyvc.run import Unsupported
from pyvc.values import SymObj, Opaque, PyExc, CoroVal, ExcVal
from contracts.assumed_aio import _M

B = z3.BoolSort()
BOOLARR = z3.ArraySort(INT, B)
INTARR = z3.ArraySort(INT, INT)
# immutable facts about entry a
EQD = z3.Function('ENTRY_DIGEST_EQ_NACK_DIGEST', INT, B)      # entry.implicit_sha256 == implicit_sha256 (argument)
HASD = z3.Function('ENTRY_HAS_DIGEST', INT, B)                # len(entry.implicit_sha256) > 0
DMATCH = z3.Function('ENTRY_DIGEST_EQ_DATA_DIGEST', INT, B)   # sha256(raw_packet) == entry.implicit_sha256
CBP = z3.Function('ENTRY_CAN_BE_PREFIX', INT, B)
ISFUT = z3.Function('ENTRY_FUTURE_IS_ARG', INT, B)            # entry.future is future (argument)
NOTASK = z3.Function('ENTRY_TASK_NONE', INT, B)
# outcome codes stored in the world
PENDING, NACKED, CANCELLED, RESULT = 0, 1, 2, 3


class World:
    """futures / tasks of the entries: done[a], outcome[a] (PENDING / NACKED / CANCELLED), nack reason, task cancelled, satisfy started"""
    FIELDS = (('done', BOOLARR), ('outcome', INTARR), ('reason', INTARR), ('task_cancelled', BOOLARR), ('satisfying', BOOLARR))

    def __init__(self, run, label='w'):
        self.run = run
        for f, sort in self.FIELDS:
            setattr(self, f, z3.Const(run.fresh_name(f'{label}_{f}'), sort))

    def snapshot(self):
        w = World.__new__(World)
        w.run = self.run
        for f, _ in self.FIELDS:
            setattr(w, f, getattr(self, f))
        return w

    def havoc(self):
        for f, sort in self.FIELDS:
            setattr(self, f, z3.Const(self.run.fresh_name(f'h_{f}'), sort))


class FutRef:
    def __init__(self, w, a):
        self.w, self.a = w, a

    def is_(self, other):
        if isinstance(other, FutArg):
            return ISFUT(self.a)
        if isinstance(other, FutRef):
            return Eq(zint(self.a), zint(other.a))
        return False

    def getattr_(self, it, name, node):
        w, a = self.w, zint(self.a)
        if name == 'done':
            return _M(lambda it_: z3.Select(w.done, a))
        if name == 'cancelled':
            return _M(lambda it_: z3.And(z3.Select(w.done, a), z3.Select(w.outcome, a) == CANCELLED))
        if name == 'set_exception':
            def set_exception(it_, exc):
                if it_.run.branch(z3.Select(w.done, a), 'future.already_done'):
                    raise PyExc(asyncio.InvalidStateError, ('invalid state',), getattr(node, 'lineno', None), it_.where())
                cls = exc.cls if isinstance(exc, ExcVal) else None
                if cls is not types.InterestNack:
                    raise Unsupported('set_exception with something else than InterestNack')
                w.done = z3.Store(w.done, a, z3.BoolVal(True))
                w.outcome = z3.Store(w.outcome, a, z3.IntVal(NACKED))
                w.reason = z3.Store(w.reason, a, zint(exc.args[0]))
            return _M(set_exception)
        if name == 'set_result':
            def set_result(it_, value):
                if it_.run.branch(z3.Select(w.done, a), 'future.already_done'):
                    raise PyExc(asyncio.InvalidStateError, ('invalid state',), getattr(node, 'lineno', None), it_.where())
                w.done = z3.Store(w.done, a, z3.BoolVal(True))
                w.outcome = z3.Store(w.outcome, a, z3.IntVal(RESULT))
                it_.run.ghost.setdefault('pit.results', []).append(value)
            return _M(set_result)
        if name == 'cancel':
            def cancel(it_):
                # Future.cancel(): no effect (False) when already done
                was = z3.Select(w.done, a)
                w.outcome = z3.Store(w.outcome, a, z3.If(was, z3.Select(w.outcome, a), z3.IntVal(CANCELLED)))
                w.done = z3.Store(w.done, a, z3.BoolVal(True))
                return z3.Not(was)
            return _M(cancel)
        raise Unsupported(f'Future.{name}')


class FutArg:
    """the future handed to timeout()"""

    def is_(self, other):
        if isinstance(other, FutRef):
            return ISFUT(other.a)
        return other is self


class TaskRef:
    def __init__(self, w, a):
        self.w, self.a = w, a

    def getattr_(self, it, name, node):
        if name == 'cancel':
            def cancel(it_):
                self.w.task_cancelled = z3.Store(self.w.task_cancelled, zint(self.a), z3.BoolVal(True))
            return _M(cancel)
        raise Unsupported(f'Task.{name}')


class Digest:
    """entry.implicit_sha256"""

    def __init__(self, a):
        self.a = a

    def compare(self, it, op, other, node):
        import ast
        if isinstance(other, DataDigest):
            r = DMATCH(self.a)
        elif isinstance(other, NackDigest):
            r = EQD(self.a)
        else:
            raise Unsupported('comparison of an entry digest with an unknown value')
        return r if isinstance(op, ast.Eq) else Not(r)

    def rcompare(self, it, op, other, node):
        return self.compare(it, op, other, node)

    def len_(self, it, node):
        return z3.If(HASD(self.a), z3.IntVal(32), z3.IntVal(0))


class NackDigest:
    def rcompare(self, it, op, other, node):
        return other.compare(it, op, self, node)

    def compare(self, it, op, other, node):
        return other.compare(it, op, self, node)


class DataDigest(NackDigest):
    pass


class Entry:
    def __init__(self, w, a):
        self.w, self.index = w, a

    def getattr_(self, it, name, node):
        w, a = self.w, self.index
        if name == 'future':
            return FutRef(w, a)
        if name == 'implicit_sha256':
            return Digest(a)
        if name == 'can_be_prefix':
            return CBP(a)
        if name == 'task':
            return None if it.run.branch(NOTASK(a), 'entry.task_none') else TaskRef(w, a)
        if name == 'satisfy':
            def satisfy(it_, data):
                def thunk():
                    if it_.run.branch(z3.Select(w.satisfying, zint(a)), 'entry.satisfy_started_twice'):
                        it_.run.ghost['pit.double_satisfy'] = True
                    w.satisfying = z3.Store(w.satisfying, zint(a), z3.BoolVal(True))
                    it_.run.ghost.setdefault('pit.satisfy_data', []).append(data)
                return CoroVal(thunk, 'PendingIntEntry.satisfy')
            return _M(satisfy)
        raise Unsupported(f'PendingIntEntry.{name}')


class PList:
    """pending_list: n entries, entry a = Entry(world, a)"""

    def __init__(self, run, w, n):
        self.run, self.w, self.n = run, w, n

    def seq_len(self):
        return self.n

    def len_(self, it, node):
        return self.n

    def elem(self, it, i):
        return Entry(self.w, simp(zint(i)))

    def truth(self, it):
        return simp(zint(self.n) != 0)

    def iterate(self, it, node):
        raise Unsupported('iteration over the pending list needs a loop specification')

    def kept_all(self):
        a = z3.Int('a!all')
        return z3.Lambda([a], z3.And(a >= 0, a < zint(self.n)))

    def comp_(self, it, node, fr):
        """[x for x in pending_list if cond(x)] -> SubList(kept = lambda a. in range and cond(entry a))"""
        import ast
        from pyvc.values import Frame
        if not isinstance(node, ast.ListComp):
            raise Unsupported('comprehension over the pending list other than a list')
        g = node.generators[0]
        if not (isinstance(g.target, ast.Name) and isinstance(node.elt, ast.Name) and node.elt.id == g.target.id):
            raise Unsupported('comprehension over the pending list that maps its elements')
        q = z3.Int('a!comp')
        fr2 = Frame(fr.fn, fr, fr.globals)
        fr2.locals[g.target.id] = Entry(self.w, q)
        cond = z3.BoolVal(True)
        for c in g.ifs:
            v = it.truth(it.eval(c, fr2))
            cond = z3.And(cond, zbool(v))
        return SubList(self, z3.Lambda([q], z3.And(q >= 0, q < zint(self.n), cond)))


class SubList:
    """the in-order sub-sequence of base made of the indices a with kept[a]"""

    def __init__(self, base, kept):
        self.base, self.kept = base, kept

    def truth(self, it):
        a = z3.Int('a!ne')
        return z3.Exists([a], z3.And(a >= 0, a < zint(self.base.n), z3.Select(self.kept, a)))

    def getattr_(self, it, name, node):
        if name == 'append':
            def append(it_, entry):
                if not isinstance(entry, Entry):
                    raise Unsupported('append of something else than a pending entry')
                i = zint(entry.index)
                b = z3.Int('b!ord')
                # appended in iteration order: nothing at or after this index was kept before
                it_.run.oblige(f'{it_.where()}#sublist.append_keeps_order', z3.ForAll([b], z3.Implies(b >= i, z3.Not(z3.Select(self.kept, b)))))
                self.kept = z3.Store(self.kept, i, z3.BoolVal(True))
            return _M(append)
        raise Unsupported(f'list.{name} on a sub-list of the pending list')


def as_kept(v, base):
    """kept-array of a list value that is either a python [] or a SubList / the PList itself"""
    if isinstance(v, SubList):
        return v.kept
    if isinstance(v, PList):
        return v.kept_all()
    if isinstance(v, list) and v == []:
        return z3.K(INT, z3.BoolVal(False))
    raise Unsupported(f'list value {type(v).__name__} in a pending-list contract')


def zbool(v):
    if isinstance(v, bool):
        return z3.BoolVal(v)
    return v


def mk_node(cx):
    run = cx.run
    n = run.input_int('n_pending')
    run.assume(n >= 0)
    w = World(run)
    pl = PList(run, w, n)
    a = z3.Int('a!init')
    run.assume(z3.ForAll([a], z3.Not(z3.Select(w.satisfying, a))))      # no validation of THIS Data was started before the call
    run.ghost['pit'] = dict(w=w, w0=w.snapshot(), pl=pl, n=n)
    return SymObj(appv2.InterestTreeNode, dict(pending_list=pl))


def _rng(a, n):
    return z3.And(a >= 0, a < zint(n))


# ----------------------------------------------------------------------------- nack_interest
def _nack_world(w, w0, i, n, reason):
    """state of the futures after the first i entries were handled"""
    a = z3.Int('a!nw')
    hit = z3.And(a >= 0, a < i, EQD(a), z3.Not(z3.Select(w0.done, a)))
    return z3.ForAll([a], z3.And(
        z3.Implies(hit, z3.And(z3.Select(w.done, a), z3.Select(w.outcome, a) == NACKED, z3.Select(w.reason, a) == zint(reason))),
        z3.Implies(z3.Not(hit), z3.And(z3.Select(w.done, a) == z3.Select(w0.done, a), z3.Select(w.outcome, a) == z3.Select(w0.outcome, a),
                                       z3.Select(w.reason, a) == z3.Select(w0.reason, a)))))


def _nack_inv(it, env, g):
    d = it.run.ghost['pit']
    i = zint(g['i'])
    a = z3.Int('a!ni')
    kept = as_kept(env['remaining'], d['pl'])
    return {'remaining_is_the_non_matching_prefix': z3.ForAll([a], z3.Select(kept, a) == z3.And(a >= 0, a < i, z3.Not(EQD(a)))),
            'matching_undone_entries_so_far_are_nacked_and_nothing_else_changed': _nack_world(d['w'], d['w0'], i, d['n'], env['nack_reason'])}


def _havoc_remaining(it, env, g):
    d = it.run.ghost['pit']
    d['w'].havoc()
    return SubList(d['pl'], z3.Const(it.run.fresh_name('kept'), BOOLARR))


@contract
class nack_interest(Contract):
    fn = appv2.InterestTreeNode.nack_interest
    props = ('C03', 'C10')
    doc = ('InterestTreeNode.nack_interest(reason, digest), pending list of ANY length: exactly the entries whose implicit digest equals '
           'the Nack\'s are removed; each of them that is not finished yet fails with InterestNack(reason) - a finished one is not '
           'completed a second time; every other entry stays pending, in order, with its future untouched; returns True iff nothing '
           'remains (the caller then drops the node); nothing is raised')
    raises = {}
    loops = {1: LoopSpec(_nack_inv, havoc={'remaining': _havoc_remaining})}

    def setup(self, cx):
        node = mk_node(cx)
        return dict(self=node, nack_reason=cx.run.input_int('nack_reason'), implicit_sha256=NackDigest())

    def post(c, cx, result, self, nack_reason, implicit_sha256):
        d = cx.run.ghost['pit']
        n = d['n']
        a = z3.Int('a!np')
        pl2 = self.d['pending_list']
        out = {'pending_list_is_a_sublist': isinstance(pl2, SubList) and pl2.base is d['pl']}
        if not out['pending_list_is_a_sublist']:
            return out
        out['exactly_the_non_matching_entries_remain_in_order'] = z3.ForAll([a], z3.Select(pl2.kept, a) == z3.And(_rng(a, n), z3.Not(EQD(a))))
        out['matching_pending_entries_nacked_once_others_untouched'] = _nack_world(d['w'], d['w0'], zint(n), n, nack_reason)
        out['true_iff_nothing_remains'] = Iff(cx.it.truth(result), z3.ForAll([a], z3.Implies(_rng(a, n), EQD(a))))
        return out


# ----------------------------------------------------------------------------- satisfy
def PASSED(a, is_prefix):
    return z3.And(z3.Or(CBP(a), z3.Not(zbool(is_prefix))), z3.Implies(HASD(a), DMATCH(a)))


def _sat_world(w, w0, i, is_prefix):
    a = z3.Int('a!sw')
    return z3.ForAll([a], z3.And(
        z3.Select(w.satisfying, a) == z3.Or(z3.Select(w0.satisfying, a), z3.And(a >= 0, a < i, PASSED(a, is_prefix))),
        z3.Select(w.done, a) == z3.Select(w0.done, a), z3.Select(w.outcome, a) == z3.Select(w0.outcome, a)))


def _sat_inv(it, env, g):
    d = it.run.ghost['pit']
    i = zint(g['i'])
    a = z3.Int('a!si')
    kept = as_kept(env['unsatisfied_entries'], d['pl'])
    return {'unsatisfied_is_the_non_passing_prefix': z3.ForAll([a], z3.Select(kept, a) == z3.And(a >= 0, a < i, z3.Not(PASSED(a, env['is_prefix'])))),
            'validation_started_for_exactly_the_passing_entries_so_far': _sat_world(d['w'], d['w0'], i, env['is_prefix']),
            'no_entry_handed_to_validation_twice': it.run.ghost.get('pit.double_satisfy') is not True}


def _sha256_model(it, args, kwargs, node):
    class _H:
        def getattr_(self, it_, name, node_):
            if name == 'digest':
                return _M(lambda it__: DataDigest())
            raise Unsupported(f'sha256().{name}')
    return _H()


def _install():
    from pyvc import models
    models.BUILTIN_MODELS[appv2.sha256] = _wrap_sha(models.BUILTIN_MODELS.get(appv2.sha256))


def _wrap_sha(old):
    def m(it, args, kwargs, node):
        if 'pit' in it.run.ghost and args and isinstance(args[0], Opaque) and args[0].typ == 'raw_packet':
            return _sha256_model(it, args, kwargs, node)
        if old is None:
            raise Unsupported('sha256 outside its models')
        return old(it, args, kwargs, node)
    return m


_install()


@contract
class node_satisfy(Contract):
    fn = appv2.InterestTreeNode.satisfy
    props = ('C03', 'C05')
    doc = ('InterestTreeNode.satisfy(data, is_prefix), pending list of ANY length: validation (PendingIntEntry.satisfy) is started for '
           'exactly the entries the Data can answer - can_be_prefix or exact name, and digest equal when the Interest carried one - '
           'once each, with this Data; when some entry does not pass, exactly the non-passing entries stay pending, in order, and '
           'False is returned; True (node can be dropped) iff every entry passed; no future is completed here, nothing is raised')
    raises = {}
    loops = {1: LoopSpec(_sat_inv, havoc={'unsatisfied_entries': _havoc_remaining})}

    def setup(self, cx):
        run = cx.run
        node = mk_node(cx)
        raw = Opaque('raw_packet', 'raw packet')
        data = (Opaque('token', 'name'), Opaque('token', 'meta'), Opaque('token', 'content'), Opaque('token', 'sig'), raw)
        return dict(self=node, data=data, is_prefix=run.input_bool('is_prefix'))

    def post(c, cx, result, self, data, is_prefix):
        d = cx.run.ghost['pit']
        n = d['n']
        a = z3.Int('a!sp')
        allp = z3.ForAll([a], z3.Implies(_rng(a, n), PASSED(a, is_prefix)))
        out = {'validation_started_once_for_exactly_the_passing_entries': _sat_world(d['w'], d['w0'], zint(n), is_prefix),
               'no_entry_handed_to_validation_twice': cx.run.ghost.get('pit.double_satisfy') is not True,
               'validation_gets_this_data': all(x is data for x in cx.run.ghost.get('pit.satisfy_data', [])),
               'true_iff_every_entry_passed': Iff(cx.it.truth(result), allp)}
        pl2 = self.d['pending_list']
        if result is False:
            ok = isinstance(pl2, SubList) and pl2.base is d['pl']
            out['non_passing_entries_stay_pending_in_order'] = ok and z3.ForAll([a], z3.Select(pl2.kept, a) == z3.And(_rng(a, n), z3.Not(PASSED(a, is_prefix))))
        return out


# ----------------------------------------------------------------------------- timeout
def _to_inv(it, env, g):
    d = it.run.ghost['pit']
    w, w0 = d['w'], d['w0']
    i = zint(g['i'])
    a = z3.Int('a!ti')
    return {'tasks_of_this_future_cancelled_so_far_nothing_else': z3.ForAll([a], z3.And(
        z3.Select(w.task_cancelled, a) == z3.Or(z3.Select(w0.task_cancelled, a), z3.And(a >= 0, a < i, ISFUT(a), z3.Not(NOTASK(a)))),
        z3.Select(w.done, a) == z3.Select(w0.done, a), z3.Select(w.outcome, a) == z3.Select(w0.outcome, a)))}


def _havoc_world_only(it, env, g):
    it.run.ghost['pit']['w'].havoc()
    return env['self']


@contract
class node_timeout(Contract):
    fn = appv2.InterestTreeNode.timeout
    props = ('C03',)
    doc = ('InterestTreeNode.timeout(future), pending list of ANY length: exactly the entries of this future leave the list (their '
           'validation task, if any, is cancelled); all other entries stay, in order, untouched; no future is completed here (the '
           'caller raises the timeout); True iff the list is empty afterwards')
    raises = {}
    loops = {1: LoopSpec(_to_inv, havoc={'self': _havoc_world_only})}

    def setup(self, cx):
        return dict(self=mk_node(cx), future=FutArg())

    def post(c, cx, result, self, future):
        d = cx.run.ghost['pit']
        n, w, w0 = d['n'], d['w'], d['w0']
        a = z3.Int('a!tp')
        pl2 = self.d['pending_list']
        ok = isinstance(pl2, SubList) and pl2.base is d['pl']
        out = {'pending_list_is_a_sublist': ok}
        if not ok:
            return out
        out['exactly_the_entries_of_other_futures_remain'] = z3.ForAll([a], z3.Select(pl2.kept, a) == z3.And(_rng(a, n), z3.Not(ISFUT(a))))
        out['only_tasks_of_this_future_cancelled_no_future_completed'] = z3.ForAll([a], z3.And(
            z3.Select(w.task_cancelled, a) == z3.Or(z3.Select(w0.task_cancelled, a), z3.And(_rng(a, n), ISFUT(a), z3.Not(NOTASK(a)))),
            z3.Select(w.done, a) == z3.Select(w0.done, a), z3.Select(w.outcome, a) == z3.Select(w0.outcome, a)))
        out['true_iff_nothing_remains'] = Iff(cx.it.truth(result), z3.ForAll([a], z3.Implies(_rng(a, n), ISFUT(a))))
        return out


# ----------------------------------------------------------------------------- cancel
def _cancel_inv(it, env, g):
    d = it.run.ghost['pit']
    w, w0 = d['w'], d['w0']
    i = zint(g['i'])
    a = z3.Int('a!ci')
    seen = z3.And(a >= 0, a < i)
    return {'every_entry_so_far_is_finished_pending_ones_as_cancelled': z3.ForAll([a], z3.And(
        z3.Implies(seen, z3.And(z3.Select(w.done, a),
                                z3.Select(w.outcome, a) == z3.If(z3.Select(w0.done, a), z3.Select(w0.outcome, a), z3.IntVal(CANCELLED)),
                                z3.Select(w.task_cancelled, a) == z3.Or(z3.Select(w0.task_cancelled, a), z3.Not(NOTASK(a))))),
        z3.Implies(z3.Not(seen), z3.And(z3.Select(w.done, a) == z3.Select(w0.done, a), z3.Select(w.outcome, a) == z3.Select(w0.outcome, a),
                                        z3.Select(w.task_cancelled, a) == z3.Select(w0.task_cancelled, a)))))}


@contract
class node_cancel(Contract):
    fn = appv2.InterestTreeNode.cancel
    props = ('C03',)
    doc = ('InterestTreeNode.cancel(), pending list of ANY length: afterwards every entry\'s future is finished - a pending one as '
           'cancelled, a finished one keeps its outcome - and every validation task is cancelled; nothing is raised')
    raises = {}
    loops = {1: LoopSpec(_cancel_inv, havoc={'self': _havoc_world_only})}

    def setup(self, cx):
        return dict(self=mk_node(cx))

    def post(c, cx, result, self):
        d = cx.run.ghost['pit']
        n, w, w0 = d['n'], d['w'], d['w0']
        a = z3.Int('a!cp')
        return {'every_pending_future_cancelled_finished_ones_keep_their_outcome': z3.ForAll([a], z3.Implies(_rng(a, n), z3.And(
            z3.Select(w.done, a), z3.Select(w.outcome, a) == z3.If(z3.Select(w0.done, a), z3.Select(w0.outcome, a), z3.IntVal(CANCELLED)),
            z3.Implies(z3.Not(NOTASK(a)), z3.Select(w.task_cancelled, a))))),
            'list_unchanged': self.d['pending_list'] is d['pl']}


# ============================================================================= table level: _on_nack, _remove_pending,
# _wait_for_data, express_raw_interest (pygtrie-backed NameTrie = ASSUMED map from name to node)
from ndn import utils as _utils                                       # noqa: E402
from ndn.encoding.name import Name, Component                         # noqa: E402
from contracts.assumed_aio import Fut, Face, install_clock            # noqa: E402
import logging                                                        # noqa: E402


class PName:
    """a name as seen by the table code: emptiness and the type of its last component are symbolic"""
    opaque_value = True          # stands for an unknown value of a library type: foreign contracts do not know it

    def __init__(self, run, label, stripped_of=None):
        self.run, self.label, self.stripped_of = run, label, stripped_of
        if stripped_of is None:
            self.empty = run.input_bool(f'{label}_empty')
            self.last_type = run.input_int(f'{label}_last_type')

    def truth(self, it):
        if self.stripped_of is not None:
            raise Unsupported('truth of a stripped name')
        return Not(self.empty)

    def getitem(self, it, idx, node):
        if idx != -1 or self.stripped_of is not None:
            raise Unsupported('only name[-1] is modelled')
        if it.run.branch(self.empty, 'name.empty'):
            it.raise_(IndexError, 'list index out of range', node=node)
        return PLast(self)

    def getslice(self, it, lo, hi, node):
        if lo is None and hi == -1 and self.stripped_of is None:
            return PName(self.run, self.label + '[:-1]', stripped_of=self)
        raise Unsupported('only name[:-1] is modelled')


class PLast:
    def __init__(self, name):
        self.name = name


class PDigest(NackDigest):
    def __init__(self, of):
        self.of = of


def _use_pname(kind):
    return lambda c, it, args, kwargs: isinstance(args[0], kind)


@contract
class normalize_pname(Contract):
    fn = Name.normalize
    assumed = True
    use_contract_at = _use_pname(PName)

    def result(c, cx, name):
        return name


@contract
class get_type_plast(Contract):
    fn = Component.get_type
    assumed = True
    use_contract_at = _use_pname(PLast)

    def result(c, cx, component):
        return component.name.last_type


@contract
class get_value_plast(Contract):
    fn = Component.get_value
    assumed = True
    use_contract_at = _use_pname(PLast)

    def result(c, cx, component):
        return PDigest(component.name)


class NodeModel:
    """an InterestTreeNode seen through the contracts of its methods (verified above)"""

    def __init__(self, run, label):
        self.run, self.label = run, label
        self.calls = []

    def truth(self, it):
        return True

    def getattr_(self, it, name, node):
        if name in ('nack_interest', 'timeout', 'append_interest', 'satisfy'):
            def f(it_, *a, **kw):
                r = None
                if name != 'append_interest':
                    r = it_.run.fresh_bool(f'{self.label}.{name}_leaves_nothing')
                self.calls.append((name, a, kw, r, len(it_.run.ghost.get('pit.events', []))))
                it_.run.ghost.setdefault('pit.events', []).append((name, self))
                return r
            return _M(f)
        raise Unsupported(f'InterestTreeNode.{name}')


class PitModel:
    """NameTrie as a map name -> node (ASSUMED pygtrie contract: __getitem__ / KeyError, __delitem__, setdefault)"""

    def __init__(self, run, present):
        self.run = run
        self.present = present        # node stored under the queried name, or None
        self.queried = []
        self.deleted = []
        self.created = None

    def _same_key(self, k):
        return all(q is k for q in self.queried)

    def getitem(self, it, key, node):
        self.queried.append(key)
        if self.present is None or key in self.deleted:
            it.raise_(KeyError, 'no such name', node=node)
        return self.present

    def setitem(self, it, key, val, node):
        self.queried.append(key)
        self.present = val
        self.created = val
        it.run.ghost.setdefault('pit.events', []).append(('set', key))

    def delitem(self, it, key, node):
        self.queried.append(key)
        if self.present is None or key in self.deleted:
            it.raise_(KeyError, 'no such name', node=node)
        self.deleted.append(key)
        it.run.ghost.setdefault('pit.events', []).append(('del', key))

    def getattr_(self, it, name, node):
        if name == 'setdefault':
            def setdefault(it_, key, default):
                self.queried.append(key)
                if self.present is None:
                    self.present = default
                    self.created = default
                return self.present
            return _M(setdefault)
        raise Unsupported(f'NameTrie.{name}')


def _is_empty_bytes(v):
    from pyvc.run import View
    if isinstance(v, (bytes, bytearray)):
        return len(v) == 0
    return isinstance(v, View) and Eq(zint(v.length), 0)


def mk_app2(cx, pit, face=None):
    return SymObj(appv2.NDNApp, dict(logger=logging.getLogger('ndn.appv2'), face=face or Face(cx.run, True), _pit=pit, _fib=None,
                                     registerer=None, _autoreg_routes=[]))


@contract
class on_nack(Contract):
    fn = appv2.NDNApp._on_nack
    props = ('C03', 'C10', 'C06')
    doc = ('_on_nack(name, reason): the pending node is looked up under the name without its implicit-digest component (and only '
           'that component is dropped), nack_interest(reason, digest) is called on it exactly once with the digest of the Nack name '
           '(b\'\' without one), and the node is removed from the table iff nack_interest reports that nothing remains; a Nack for an '
           'unknown name changes nothing; nothing is raised')
    raises = {}

    def setup(self, cx):
        run = cx.run
        pk = run.choose([('no pending node', True), ('pending node', True)], 'pit')
        node = NodeModel(run, 'node') if pk == 'pending node' else None
        pit = PitModel(run, node)
        run.ghost['on_nack'] = dict(pit=pit, node=node)
        return dict(self=mk_app2(cx, pit), name=PName(run, 'name'), nack_reason=run.input_int('nack_reason'))

    def post(c, cx, result, self, name, nack_reason):
        g = cx.run.ghost['on_nack']
        pit, node = g['pit'], g['node']
        digest = And(Not(name.empty), name.last_type == Component.TYPE_IMPLICIT_SHA256)
        out = {'table_queried_under_one_name': len(pit.queried) >= 1 and pit._same_key(pit.queried[0])}
        if not out['table_queried_under_one_name']:
            return out
        key = pit.queried[0]
        out['node_name_is_the_nack_name_without_digest_component'] = And(
            Implies(digest, isinstance(key, PName) and key.stripped_of is name), Implies(Not(digest), key is name))
        if node is None:
            out['unknown_name_changes_nothing'] = pit.deleted == []
            return out
        out['nack_interest_called_once'] = [x[0] for x in node.calls] == ['nack_interest']
        if out['nack_interest_called_once']:
            _, a, kw, r, _ = node.calls[0]
            dg = a[1] if len(a) > 1 else kw.get('implicit_sha256', b'')
            out['reason_passed_on'] = a[0] is nack_reason
            out['digest_of_the_nack_name_passed_on'] = And(Implies(digest, isinstance(dg, PDigest) and dg.of is name),
                                                           Implies(Not(digest), _is_empty_bytes(dg)))
            out['node_removed_iff_nothing_remains'] = Iff(r, len(pit.deleted) == 1) if not isinstance(r, bool) else (r == (len(pit.deleted) == 1))
        return out


@contract
class remove_pending(Contract):
    fn = appv2.NDNApp._remove_pending
    props = ('C03',)
    doc = ('_remove_pending(future, node_name, node): the future\'s entries leave the node (node.timeout); the table entry under '
           'node_name is deleted iff the node is empty afterwards AND the table still holds this very node under that name (a node '
           'that was replaced meanwhile is left alone); a missing table entry is not an error; nothing is raised')
    raises = {}

    def setup(self, cx):
        run = cx.run
        node = NodeModel(run, 'node')
        tk = run.choose([('table holds this node', True), ('table holds another node', True), ('table holds nothing', True)], 'table')
        present = node if tk == 'table holds this node' else (NodeModel(run, 'other') if tk == 'table holds another node' else None)
        pit = PitModel(run, present)
        run.ghost['rp'] = dict(pit=pit, node=node, tk=tk)
        return dict(self=mk_app2(cx, pit), future=FutArg(), node_name=Opaque('token', 'node name'), node=node)

    def post(c, cx, result, self, future, node_name, node):
        g = cx.run.ghost['rp']
        pit = g['pit']
        out = {'future_entries_removed_from_the_node': [x[0] for x in node.calls] == ['timeout'] and node.calls[0][1] == (future,)}
        if not out['future_entries_removed_from_the_node']:
            return out
        empty = node.calls[0][3]
        should = And(empty, g['tk'] == 'table holds this node')
        out['table_entry_deleted_iff_node_empty_and_still_registered'] = Iff(should, pit.deleted == [node_name])
        out['nothing_else_deleted'] = all(k is node_name for k in pit.deleted) and len(pit.deleted) <= 1
        return out


def _wait_for_model(it, args, kwargs, node):
    """ASSUMED asyncio.wait_for(future, timeout): the future's result, the exception set on it, TimeoutError after the timeout, or
    CancelledError when the waiting task is cancelled"""
    fut = args[0]
    timeout = kwargs.get('timeout', args[1] if len(args) > 1 else None)

    def thunk():
        g = it.run.ghost.setdefault('wait_for', [])
        tag = it.run.choose([('result', True), (TimeoutError, True), (asyncio.CancelledError, True), (types.InterestNack, True),
                             (types.ValidationFailure, True)], 'wait_for')
        g.append((fut, timeout, tag))
        if tag == 'result':
            return (Opaque('token', 'data name'), Opaque('token', 'content'), Opaque('token', 'context'))
        raise PyExc(tag, ('from wait_for',), getattr(node, 'lineno', None), it.where())
    return CoroVal(thunk, 'wait_for')


def _install2():
    from pyvc import models
    models.REAL_FUNCTION_MODELS[asyncio.wait_for] = _wait_for_model
    models.BUILTIN_MODELS[asyncio.wait_for] = _wait_for_model


_install2()


@contract
class wait_for_data(Contract):
    fn = appv2.NDNApp._wait_for_data
    props = ('C03',)
    doc = ('_wait_for_data: waits on the Interest\'s own future for the remaining lifetime (100 ms when the deadline already passed); '
           'the future\'s result is returned unchanged; a timeout becomes InterestTimeout and a cancellation InterestCanceled, in both '
           'cases after the Interest was removed from the pending table; InterestNack and ValidationFailure pass through and leave '
           'the table alone (their entry was removed by the code that completed the future)')
    raises = {types.InterestTimeout: lambda cx, **p: True, types.InterestCanceled: lambda cx, **p: True,
              types.InterestNack: lambda cx, **p: True, types.ValidationFailure: lambda cx, **p: True}

    def setup(self, cx):
        run = cx.run
        clock = install_clock(run)
        node = NodeModel(run, 'node')
        pit = PitModel(run, node)
        fut = Fut(run, 'future')
        run.ghost['wfd'] = dict(pit=pit, node=node, fut=fut, clock=clock)
        return dict(self=mk_app2(cx, pit), future=fut, deadline=run.input_int('deadline'), node_name=Opaque('token', 'node name'),
                    node=node)

    def _common(c, cx, future, deadline):
        g = cx.run.ghost['wfd']
        w = cx.run.ghost.get('wait_for', [])
        out = {'waits_once_on_its_own_future': len(w) == 1 and w[0][0] is future}
        if len(w) == 1 and len(g['clock'].reads) >= 1:
            now = g['clock'].reads[0]
            lifetime = z3.If(zint(deadline) - zint(now) <= 0, 100, zint(deadline) - zint(now))
            t = w[0][1]
            from pyvc.values import Quot
            if isinstance(t, Quot):
                out['waits_for_the_remaining_lifetime'] = t.den == 1000.0 and Eq(zint(t.num), lifetime)
            else:
                out['waits_for_the_remaining_lifetime'] = isinstance(t, float) and t == 0.1 and zint(deadline) - zint(now) <= 0
        return out, w

    def post(c, cx, result, self, future, deadline, node_name, node):
        out, w = c._common(cx, future, deadline)
        out['result_of_the_future_returned'] = len(w) == 1 and w[0][2] == 'result' and isinstance(result, tuple) and len(result) == 3
        out['table_untouched_on_success'] = node.calls == [] and cx.run.ghost['wfd']['pit'].deleted == []
        return out

    def xpost(c, cx, exc, self, future, deadline, node_name, node):
        out, w = c._common(cx, future, deadline)
        if len(w) != 1:
            return out
        tag = w[0][2]
        removed = [x[0] for x in node.calls] == ['timeout'] and node.calls[0][1] == (future,)
        if exc.cls is types.InterestTimeout:
            out['timeout_reported_after_removal'] = tag is TimeoutError and removed
        elif exc.cls is types.InterestCanceled:
            out['cancellation_reported_after_removal'] = tag is asyncio.CancelledError and removed
        else:
            out['other_outcomes_pass_through_and_leave_the_table_alone'] = tag is exc.cls and node.calls == []
        return out


class EvFace(Face):
    def getattr_(self, it, name, node):
        if name == 'send':
            def f(it_, data):
                self.sent.append((data, it_.run.heap))
                it_.run.ghost.setdefault('pit.events', []).append(('send', data))
            return _M(f)
        return super().getattr_(it, name, node)


class LoopObj:
    def __init__(self, run):
        self.run = run
        self.created = []

    def getattr_(self, it, name, node):
        if name == 'create_future':
            def f(it_):
                fu = Fut(it_.run, f'future{len(self.created)}', state=0)
                self.created.append(fu)
                return fu
            return _M(f)
        raise Unsupported(f'loop.{name}')


def _install3():
    from pyvc import models

    def get_loop(it, args, kwargs, node):
        lp = it.run.ghost.get('aio.loop')
        if lp is None:
            lp = it.run.ghost['aio.loop'] = LoopObj(it.run)
        return lp
    models.REAL_FUNCTION_MODELS[asyncio.get_running_loop] = get_loop
    models.BUILTIN_MODELS[asyncio.get_running_loop] = get_loop


_install3()


@contract
class express_raw_interest(Contract):
    fn = appv2.NDNApp.express_raw_interest
    props = ('C03',)
    doc = ('express_raw_interest: with no_response the Interest is only sent; without a validator it is refused (ValueError) before '
           'anything is sent or registered; otherwise exactly one new pending entry (fresh future, deadline = now + lifetime or the '
           '4 s default, the Interest\'s selectors, validator, implicit digest) is registered under the name without its digest '
           'component - in the existing node of that name or a new one - BEFORE the Interest is handed to the face exactly once, '
           'and the coroutine returned waits on that same future')
    raises = {ValueError: lambda cx, **p: p['validator'] is None and p['no_response'] is not True}
    exact_raises = True

    def setup(self, cx):
        run = cx.run
        install_clock(run)
        nk = run.choose([('node exists', True), ('no node yet', True)], 'pit')
        node = NodeModel(run, 'node') if nk == 'node exists' else None
        pit = PitModel(run, node)
        face = EvFace(run, True)
        vk = run.choose([('validator', True), ('validator=None', True)], 'validator')
        validator = Opaque('validator', 'validator') if vk == 'validator' else None
        nr = run.choose([(False, True), (True, True)], 'no_response')
        lk = run.choose([('lifetime', True), ('lifetime=None', True)], 'lifetime')
        lifetime = run.input_int('lifetime') if lk == 'lifetime' else None
        from pyvc.symseq import AbsObj
        param = AbsObj('interest_param', dict(lifetime=lifetime, can_be_prefix=run.input_bool('can_be_prefix'),
                                              must_be_fresh=run.input_bool('must_be_fresh')))
        name = PName(run, 'final_name')
        run.assume(Not(name.empty))             # an Interest name has at least one component (make_interest guarantees it)
        run.ghost['eri'] = dict(pit=pit, node=node, face=face, lifetime=lifetime)
        return dict(self=mk_app2(cx, pit, face), final_name=name, interest_param=param, raw_interest=Opaque('token', 'raw interest'),
                    validator=validator, no_response=nr)

    def xpost(c, cx, exc, self, final_name, interest_param, raw_interest, validator, no_response):
        g = cx.run.ghost['eri']
        return {'refused_before_any_effect': g['face'].sent == [] and g['pit'].queried == [] and
                (g['node'] is None or g['node'].calls == [])}

    def post(c, cx, result, self, final_name, interest_param, raw_interest, validator, no_response):
        run, it = cx.run, cx.it
        g = run.ghost['eri']
        pit, node, face = g['pit'], g['node'], g['face']
        out = {'interest_sent_exactly_once': len(face.sent) == 1 and face.sent[0][0] is raw_interest}
        if no_response is True:
            out['fire_and_forget_registers_nothing'] = result is None and pit.queried == [] and (node is None or node.calls == [])
            return out
        lp = run.ghost.get('aio.loop')
        out['one_fresh_future'] = lp is not None and len(lp.created) == 1
        if not out['one_fresh_future']:
            return out
        fut = lp.created[0]
        digest = final_name.last_type == Component.TYPE_IMPLICIT_SHA256
        key = pit.queried[0] if pit.queried else None
        out['registered_under_the_name_without_digest_component'] = len(pit.queried) == 1 and And(
            Implies(digest, isinstance(key, PName) and key.stripped_of is final_name), Implies(Not(digest), key is final_name))
        now = run.ghost['clock'].reads[0] if run.ghost['clock'].reads else None
        want_deadline = None if now is None else simp(zint(now) + (zint(g['lifetime']) if g['lifetime'] is not None else 4000))
        events = run.ghost.get('pit.events', [])
        if node is not None:
            ok = [x[0] for x in node.calls] == ['append_interest']
            out['one_entry_appended_to_the_existing_node'] = ok and pit.created is None
            if ok:
                a = node.calls[0][1]
                out['entry_fields'] = And(len(a) == 5 and a[0] is fut and want_deadline is not None and a[2] is interest_param and
                                          a[3] is validator, Eq(zint(a[1]), want_deadline) if want_deadline is not None else False)
                dg = a[4] if len(a) == 5 else None
                out['entry_digest'] = And(Implies(digest, isinstance(dg, PDigest) and dg.of is final_name), Implies(Not(digest), _is_empty_bytes(dg)))
                out['registered_before_sent'] = [e[0] for e in events] == ['append_interest', 'send']
        else:
            nd = pit.created
            ok = isinstance(nd, SymObj) and nd.cls is appv2.InterestTreeNode and isinstance(nd.d.get('pending_list'), list) and \
                len(nd.d['pending_list']) == 1
            out['new_node_with_exactly_this_entry'] = ok
            if ok:
                e = nd.d['pending_list'][0]
                okf = isinstance(e, SymObj) and e.d.get('future') is fut and want_deadline is not None and e.d.get('validator') is validator
                out['entry_fields'] = And(okf, Eq(zint(e.d.get('deadline')), want_deadline) if okf else False,
                                          Iff(e.d.get('can_be_prefix'), interest_param.attrs['can_be_prefix']),
                                          Iff(e.d.get('must_be_fresh'), interest_param.attrs['must_be_fresh'])) if okf else False
                dg = e.d.get('implicit_sha256')
                out['entry_digest'] = And(Implies(digest, isinstance(dg, PDigest) and dg.of is final_name), Implies(Not(digest), _is_empty_bytes(dg)))
        # the coroutine handed back waits on this very future
        try:
            it.await_value(result)
        except PyExc:
            pass
        w = run.ghost.get('wait_for', [])
        out['returned_coroutine_waits_on_that_future'] = len(w) == 1 and w[0][0] is fut
        return out


# ============================================================================= _on_data
NPFX = z3.Int('N_PREFIX_NODES')
EXACT = z3.Function('PREFIX_IS_THE_DATA_NAME', INT, B)
SATALL = z3.Function('SATISFY_LEAVES_NOTHING', INT, B)


class DWorld:
    FIELDS = (('called', BOOLARR), ('isparg', BOOLARR), ('deleted', BOOLARR))

    def __init__(self, run):
        self.run = run
        self.double_call = False
        self.double_delete = False
        self.other_data = False
        for f, sort in self.FIELDS:
            setattr(self, f, z3.K(INT, z3.BoolVal(False)))

    def havoc(self):
        for f, sort in self.FIELDS:
            setattr(self, f, z3.Const(self.run.fresh_name(f'h_{f}'), sort))


class PfxTok:
    def __init__(self, j):
        self.j = j

    def compare(self, it, op, other, node):
        import ast
        if not isinstance(other, Opaque) or other.typ != 'data_name':
            raise Unsupported('comparison of a table prefix with something else than the Data name')
        r = EXACT(self.j)
        return r if isinstance(op, ast.Eq) else Not(r)


class NodeTok:
    def __init__(self, dw, j):
        self.dw, self.j = dw, j

    def getattr_(self, it, name, node):
        if name != 'satisfy':
            raise Unsupported(f'InterestTreeNode.{name}')

        def satisfy(it_, data, is_prefix):
            dw, j = self.dw, zint(self.j)
            if it_.run.branch(z3.Select(dw.called, j), 'node.satisfy_called_twice'):
                dw.double_call = True
            if data is not it_.run.ghost['od']['data']:
                if not (isinstance(data, tuple) and len(data) == 5 and all(x is y for x, y in zip(data, it_.run.ghost['od']['data']))):
                    dw.other_data = True
            dw.called = z3.Store(dw.called, j, z3.BoolVal(True))
            dw.isparg = z3.Store(dw.isparg, j, zbool(it_.truth(is_prefix)))
            return SATALL(j)
        return _M(satisfy)


class PrefixSeq:
    def __init__(self, dw):
        self.dw = dw

    def seq_len(self):
        return NPFX

    def elem(self, it, i):
        i = simp(zint(i))
        return (PfxTok(i), NodeTok(self.dw, i))

    def iterate(self, it, node):
        raise Unsupported('iteration over the prefixes of a name needs a loop specification')


class CleanList:
    """clean_list: the prefixes appended so far, as a set of indices; iterated with the set protocol (order irrelevant)"""
    set_protocol = True
    what = 'keys'

    def __init__(self, kept):
        self.dom = kept
        self.m = self

    def getattr_(self, it, name, node):
        if name == 'append':
            def append(it_, p):
                if not isinstance(p, PfxTok):
                    raise Unsupported('append of something else than a table prefix')
                self.dom = z3.Store(self.dom, zint(p.j), z3.BoolVal(True))
            return _M(append)
        raise Unsupported(f'list.{name}')


class DataPit:
    def __init__(self, dw):
        self.dw = dw
        self.queries = []

    def getattr_(self, it, name, node):
        if name == 'prefixes':
            def prefixes(it_, nm):
                self.queries.append(nm)
                return PrefixSeq(self.dw)
            return _M(prefixes)
        raise Unsupported(f'NameTrie.{name}')

    def delitem(self, it, key, node):
        from pyvc.symseq import KeyTok
        j = zint(key.kid) if isinstance(key, KeyTok) else (zint(key.j) if isinstance(key, PfxTok) else None)
        if j is None:
            raise Unsupported('deletion of an unknown table key')
        if it.run.branch(z3.Select(self.dw.deleted, j), 'table.deleted_twice'):
            self.dw.double_delete = True
            it.raise_(KeyError, 'deleted twice', node=node)
        self.dw.deleted = z3.Store(self.dw.deleted, j, z3.BoolVal(True))


def _od_clean(env):
    v = env['clean_list']
    if isinstance(v, CleanList):
        return v.dom
    if isinstance(v, list) and v == []:
        return z3.K(INT, z3.BoolVal(False))
    raise Unsupported('clean_list value')


def _od_inv1(it, env, g):
    dw = it.run.ghost['od']['dw']
    i = zint(g['i'])
    a = z3.Int('a!d1')
    seen = z3.And(a >= 0, a < i)
    return {'every_node_so_far_was_offered_the_data_once': And(z3.ForAll([a], z3.Select(dw.called, a) == seen), not dw.double_call,
                                                               not dw.other_data),
            'is_prefix_flag_is_prefix_differs_from_data_name': z3.ForAll([a], z3.Implies(seen, z3.Select(dw.isparg, a) == z3.Not(EXACT(a)))),
            'clean_list_holds_exactly_the_emptied_nodes_so_far': z3.ForAll([a], z3.Select(_od_clean(env), a) == z3.And(seen, SATALL(a))),
            'nothing_deleted_yet': z3.ForAll([a], z3.Not(z3.Select(dw.deleted, a)))}


def _od_havoc1(it, env, g):
    it.run.ghost['od']['dw'].havoc()
    return CleanList(z3.Const(it.run.fresh_name('clean'), BOOLARR))


def _od_inv2(it, env, g):
    dw = it.run.ghost['od']['dw']
    a = z3.Int('a!d2')
    return {'deleted_exactly_the_visited_prefixes': And(z3.ForAll([a], z3.Select(dw.deleted, a) == z3.Select(g['visited'], a)),
                                                        not dw.double_delete)}


def _od_havoc2(it, env, g):
    dw = it.run.ghost['od']['dw']
    dw.deleted = z3.Const(it.run.fresh_name('h_deleted'), BOOLARR)
    return env['self']


@contract
class on_data(Contract):
    fn = appv2.NDNApp._on_data
    props = ('C03', 'C06')
    doc = ('_on_data, for ANY number of pending nodes on prefixes of the Data name: every such node is offered this Data exactly once '
           '(node.satisfy) with is_prefix = (its name differs from the Data name); exactly the nodes that report nothing left pending '
           'are removed from the table, each once; nothing is raised')
    raises = {}
    loops = {1: LoopSpec(_od_inv1, havoc={'clean_list': _od_havoc1}), 2: LoopSpec(_od_inv2, havoc={'self': _od_havoc2})}

    def setup(self, cx):
        run = cx.run
        run.assume(NPFX >= 0)
        dw = DWorld(run)
        pit = DataPit(dw)
        name = Opaque('data_name', 'data name')
        data = (name, Opaque('token', 'meta'), Opaque('token', 'content'), Opaque('token', 'sig'), Opaque('token', 'raw'))
        run.ghost['od'] = dict(dw=dw, pit=pit, data=data)
        return dict(self=mk_app2(cx, pit), name=name, meta_info=data[1], content=data[2], sig=data[3], raw_packet=data[4])

    def post(c, cx, result, self, name, meta_info, content, sig, raw_packet):
        g = cx.run.ghost['od']
        dw = g['dw']
        a = z3.Int('a!dp')
        rng = z3.And(a >= 0, a < NPFX)
        return {'table_asked_for_the_prefixes_of_the_data_name': g['pit'].queries == [name],
                'every_prefix_node_offered_this_data_exactly_once': And(z3.ForAll([a], z3.Select(dw.called, a) == rng), not dw.double_call,
                                                                        not dw.other_data),
                'is_prefix_flag': z3.ForAll([a], z3.Implies(rng, z3.Select(dw.isparg, a) == z3.Not(EXACT(a)))),
                'exactly_the_emptied_nodes_removed_once': And(z3.ForAll([a], z3.Select(dw.deleted, a) == z3.And(rng, SATALL(a))),
                                                              not dw.double_delete)}


# ============================================================================= legacy front-end: ndn/name_tree.py
from ndn import name_tree as nt                                       # noqa: E402


def mk_node_v1(cx):
    node = mk_node(cx)
    return SymObj(nt.InterestTreeNode, dict(pending_list=node.d['pending_list']))


@contract
class v1_nack_interest(nack_interest):
    fn = nt.InterestTreeNode.nack_interest
    doc = 'legacy front-end (name_tree.InterestTreeNode.nack_interest): same contract as the current front-end'

    def setup(self, cx):
        return dict(self=mk_node_v1(cx), nack_reason=cx.run.input_int('nack_reason'), implicit_sha256=NackDigest())


def _v1_sat_world(w, w0, i, is_prefix):
    a = z3.Int('a!v1s')
    hit = z3.And(a >= 0, a < i, PASSED(a, is_prefix), z3.Not(z3.Select(w0.done, a)))
    return z3.ForAll([a], z3.And(
        z3.Implies(hit, z3.And(z3.Select(w.done, a), z3.Select(w.outcome, a) == RESULT)),
        z3.Implies(z3.Not(hit), z3.And(z3.Select(w.done, a) == z3.Select(w0.done, a), z3.Select(w.outcome, a) == z3.Select(w0.outcome, a)))))


def _v1_sat_inv(it, env, g):
    d = it.run.ghost['pit']
    i = zint(g['i'])
    a = z3.Int('a!v1i')
    kept = as_kept(env['unsatisfied_entries'], d['pl'])
    return {'unsatisfied_is_the_non_passing_prefix': z3.ForAll([a], z3.Select(kept, a) == z3.And(a >= 0, a < i, z3.Not(PASSED(a, env['is_prefix'])))),
            'passing_pending_entries_so_far_got_the_data_nothing_else_changed': _v1_sat_world(d['w'], d['w0'], i, env['is_prefix'])}


@contract
class v1_node_satisfy(Contract):
    fn = nt.InterestTreeNode.satisfy
    props = ('C03',)
    doc = ('legacy name_tree.InterestTreeNode.satisfy, pending list of ANY length: every entry the Data can answer (can_be_prefix or '
           'exact name; digest equal when given) that is still pending is completed with exactly this Data - a finished one is not '
           'completed again; when some entry does not pass, exactly the non-passing entries stay pending, in order, and False is '
           'returned; True iff every entry passed; nothing is raised')
    raises = {}
    loops = {1: LoopSpec(_v1_sat_inv, havoc={'unsatisfied_entries': _havoc_remaining})}

    def setup(self, cx):
        run = cx.run
        node = mk_node_v1(cx)
        raw = Opaque('raw_packet', 'raw packet')
        data = (Opaque('token', 'name'), Opaque('token', 'meta'), Opaque('token', 'content'), Opaque('token', 'sig'), raw)
        return dict(self=node, data=data, is_prefix=run.input_bool('is_prefix'))

    def post(c, cx, result, self, data, is_prefix):
        d = cx.run.ghost['pit']
        n = d['n']
        a = z3.Int('a!v1p')
        allp = z3.ForAll([a], z3.Implies(_rng(a, n), PASSED(a, is_prefix)))
        out = {'passing_pending_entries_completed_once_with_this_data_others_untouched': _v1_sat_world(d['w'], d['w0'], zint(n), is_prefix),
               'completed_with_this_data': all(x is data for x in cx.run.ghost.get('pit.results', [])),
               'true_iff_every_entry_passed': Iff(cx.it.truth(result), allp)}
        pl2 = self.d['pending_list']
        if result is False:
            ok = isinstance(pl2, SubList) and pl2.base is d['pl']
            out['non_passing_entries_stay_pending_in_order'] = ok and z3.ForAll([a], z3.Select(pl2.kept, a) == z3.And(_rng(a, n), z3.Not(PASSED(a, is_prefix))))
        return out


@contract
class v1_node_timeout(Contract):
    fn = nt.InterestTreeNode.timeout
    props = ('C03',)
    doc = ('legacy name_tree.InterestTreeNode.timeout(future): exactly the entries of this future leave the list, the others stay in '
           'order; no future is touched; True iff nothing remains')
    raises = {}

    def setup(self, cx):
        return dict(self=mk_node_v1(cx), future=FutArg())

    def post(c, cx, result, self, future):
        d = cx.run.ghost['pit']
        n, w, w0 = d['n'], d['w'], d['w0']
        a = z3.Int('a!v1t')
        pl2 = self.d['pending_list']
        ok = isinstance(pl2, SubList) and pl2.base is d['pl']
        out = {'pending_list_is_a_sublist': ok}
        if ok:
            out['exactly_the_entries_of_other_futures_remain'] = z3.ForAll([a], z3.Select(pl2.kept, a) == z3.And(_rng(a, n), z3.Not(ISFUT(a))))
            out['no_future_touched'] = And(w.done is w0.done, w.outcome is w0.outcome)
            out['true_iff_nothing_remains'] = Iff(cx.it.truth(result), z3.ForAll([a], z3.Implies(_rng(a, n), ISFUT(a))))
        return out


def _v1_cancel_inv(it, env, g):
    d = it.run.ghost['pit']
    w, w0 = d['w'], d['w0']
    i = zint(g['i'])
    a = z3.Int('a!v1c')
    seen = z3.And(a >= 0, a < i)
    return {'every_entry_so_far_is_finished_pending_ones_as_cancelled': z3.ForAll([a], z3.And(
        z3.Implies(seen, z3.And(z3.Select(w.done, a),
                                z3.Select(w.outcome, a) == z3.If(z3.Select(w0.done, a), z3.Select(w0.outcome, a), z3.IntVal(CANCELLED)))),
        z3.Implies(z3.Not(seen), z3.And(z3.Select(w.done, a) == z3.Select(w0.done, a), z3.Select(w.outcome, a) == z3.Select(w0.outcome, a)))))}


@contract
class v1_node_cancel(Contract):
    fn = nt.InterestTreeNode.cancel
    props = ('C03',)
    doc = 'legacy name_tree.InterestTreeNode.cancel: every pending future is cancelled, finished ones keep their outcome'
    raises = {}
    loops = {1: LoopSpec(_v1_cancel_inv, havoc={'self': _havoc_world_only})}

    def setup(self, cx):
        return dict(self=mk_node_v1(cx))

    def post(c, cx, result, self):
        d = cx.run.ghost['pit']
        n, w, w0 = d['n'], d['w'], d['w0']
        a = z3.Int('a!v1q')
        return {'every_pending_future_cancelled_finished_ones_keep_their_outcome': z3.ForAll([a], z3.Implies(_rng(a, n), z3.And(
            z3.Select(w.done, a), z3.Select(w.outcome, a) == z3.If(z3.Select(w0.done, a), z3.Select(w0.outcome, a), z3.IntVal(CANCELLED)))))}


# ============================================================================= legacy front-end: ndn/app.py table handlers
from ndn import app as app1                                           # noqa: E402
from contracts.assumed_aio import UserCoroutineFn                     # noqa: E402


def mk_app1(cx, pit, face=None, data_validator=None):
    return SymObj(app1.NDNApp, dict(logger=logging.getLogger('ndn.app'), face=face or Face(cx.run, True), _int_tree=pit,
                                    _prefix_tree=None, data_validator=data_validator,
                                    int_validator=UserCoroutineFn('interest_validator', [True]), _autoreg_routes=[]))


@contract
class v1_on_nack(on_nack):
    fn = app1.NDNApp._on_nack
    doc = 'legacy front-end (ndn.app.NDNApp._on_nack): same contract as the current front-end'

    def setup(self, cx):
        run = cx.run
        pk = run.choose([('no pending node', True), ('pending node', True)], 'pit')
        node = NodeModel(run, 'node') if pk == 'pending node' else None
        pit = PitModel(run, node)
        run.ghost['on_nack'] = dict(pit=pit, node=node)
        return dict(self=mk_app1(cx, pit), name=PName(run, 'name'), nack_reason=run.input_int('nack_reason'))


@contract
class v1_remove_pending(remove_pending):
    fn = app1.NDNApp._remove_pending
    doc = 'legacy front-end (ndn.app.NDNApp._remove_pending): same contract as the current front-end'

    def setup(self, cx):
        run = cx.run
        node = NodeModel(run, 'node')
        tk = run.choose([('table holds this node', True), ('table holds another node', True), ('table holds nothing', True)], 'table')
        present = node if tk == 'table holds this node' else (NodeModel(run, 'other') if tk == 'table holds another node' else None)
        pit = PitModel(run, present)
        run.ghost['rp'] = dict(pit=pit, node=node, tk=tk)
        return dict(self=mk_app1(cx, pit), future=FutArg(), node_name=Opaque('token', 'node name'), node=node)


@contract
class v1_on_data(on_data):
    fn = app1.NDNApp._on_data
    doc = 'legacy front-end (ndn.app.NDNApp._on_data): same contract as the current front-end'

    def setup(self, cx):
        run = cx.run
        run.assume(NPFX >= 0)
        dw = DWorld(run)
        pit = DataPit(dw)
        name = Opaque('data_name', 'data name')
        data = (name, Opaque('token', 'meta'), Opaque('token', 'content'), Opaque('token', 'sig'), Opaque('token', 'raw'))
        run.ghost['od'] = dict(dw=dw, pit=pit, data=data)
        return dict(self=mk_app1(cx, pit), name=name, meta_info=data[1], content=data[2], sig=data[3], raw_packet=data[4])


def _wait_for_model_v1(base):
    def model(it, args, kwargs, node):
        if 'wfd1' not in it.run.ghost:
            return base(it, args, kwargs, node)
        fut = args[0]
        timeout = kwargs.get('timeout', args[1] if len(args) > 1 else None)

        def thunk():
            g = it.run.ghost.setdefault('wait_for', [])
            tag = it.run.choose([('result', True), (TimeoutError, True), (asyncio.CancelledError, True), (types.InterestNack, True)], 'wait_for')
            g.append((fut, timeout, tag))
            if tag == 'result':
                return it.run.ghost['wfd1']['data']
            raise PyExc(tag, ('from wait_for',), getattr(node, 'lineno', None), it.where())
        return CoroVal(thunk, 'wait_for')
    return model


def _install4():
    from pyvc import models
    m = _wait_for_model_v1(_wait_for_model)
    models.REAL_FUNCTION_MODELS[asyncio.wait_for] = m
    models.BUILTIN_MODELS[asyncio.wait_for] = m


_install4()
V1_ANSWERS = [True, False, None, 1, 0]


@contract
class v1_wait_for_data(Contract):
    fn = app1.NDNApp._wait_for_data
    props = ('C03', 'C05')
    doc = ('legacy _wait_for_data: waits on the Interest\'s own future for its lifetime (100 ms without one); a timeout becomes '
           'InterestTimeout and a cancellation InterestCanceled after the Interest was removed from the table; a Nack passes through; '
           'Data is handed to the caller ONLY after the validator - the one given, else the application\'s data_validator - accepted '
           'exactly this Data\'s name and signature; every falsy answer is a ValidationFailure carrying the packet; the raw packet is '
           'included iff asked for')
    raises = {types.InterestTimeout: lambda cx, **p: True, types.InterestCanceled: lambda cx, **p: True,
              types.InterestNack: lambda cx, **p: True, types.ValidationFailure: lambda cx, **p: True}

    def setup(self, cx):
        run = cx.run
        node = NodeModel(run, 'node')
        pit = PitModel(run, node)
        fut = Fut(run, 'future')
        dv = UserCoroutineFn('default_validator', V1_ANSWERS)
        vk = run.choose([('validator given', True), ('validator=None', True)], 'validator')
        v = UserCoroutineFn('validator', V1_ANSWERS) if vk == 'validator given' else None
        lk = run.choose([('lifetime', True), ('lifetime=None', True)], 'lifetime')
        lifetime = run.input_int('lifetime') if lk == 'lifetime' else None
        data = tuple(Opaque('token', x) for x in ('data name', 'meta', 'content', 'sig', 'raw packet'))
        app_ = mk_app1(cx, pit, data_validator=dv)
        run.ghost['wfd1'] = dict(pit=pit, node=node, fut=fut, dv=dv, v=v, data=data, app=app_)
        return dict(self=app_, future=fut, lifetime=lifetime, node_name=Opaque('token', 'node name'),
                    node=node, validator=v, need_raw_packet=run.choose([(False, True), (True, True)], 'need_raw_packet'))

    def _common(c, cx, future, lifetime):
        from pyvc.values import Quot
        w = cx.run.ghost.get('wait_for', [])
        out = {'waits_once_on_its_own_future': len(w) == 1 and w[0][0] is future}
        if len(w) == 1:
            t = w[0][1]
            if lifetime is None:
                out['waits_100ms_without_lifetime'] = isinstance(t, float) and t == 0.1
            else:
                out['waits_for_the_lifetime'] = isinstance(t, Quot) and t.den == 1000.0 and Eq(zint(t.num), zint(lifetime))
        return out, w

    def _validated(c, cx):
        g = cx.run.ghost['wfd1']
        used = g['v'] if g['v'] is not None else g['dv']
        others = [x for x in (g['dv'], g['v'], g['app'].d['int_validator']) if x is not None and x is not used]
        ok = len(used.calls) == 1 and used.calls[0][0] == (g['data'][0], g['data'][3]) and all(o.calls == [] for o in others)
        ans = cx.run.ghost.get(f'{used.label}.returned', 'not asked')
        return ok, ans

    def post(c, cx, result, self, future, lifetime, node_name, node, validator, need_raw_packet):
        g = cx.run.ghost['wfd1']
        out, w = c._common(cx, future, lifetime)
        ok, ans = c._validated(cx)
        d = g['data']
        out['data_returned_only_after_the_right_validator_accepted_it'] = ok and (ans is True or ans == 1 and ans is not False)
        want = (d[0], d[1], d[2], d[4]) if need_raw_packet else (d[0], d[1], d[2])
        out['returns_name_meta_content_and_raw_packet_iff_asked'] = isinstance(result, tuple) and len(result) == len(want) and \
            all(x is y for x, y in zip(result, want))
        out['table_untouched_on_success'] = node.calls == []
        return out

    def xpost(c, cx, exc, self, future, lifetime, node_name, node, validator, need_raw_packet):
        out, w = c._common(cx, future, lifetime)
        if len(w) != 1:
            return out
        tag = w[0][2]
        removed = [x[0] for x in node.calls] == ['timeout'] and node.calls[0][1] == (future,)
        if exc.cls is types.InterestTimeout:
            out['timeout_reported_after_removal'] = tag is TimeoutError and removed
        elif exc.cls is types.InterestCanceled:
            out['cancellation_reported_after_removal'] = tag is asyncio.CancelledError and removed
        elif exc.cls is types.InterestNack:
            out['nack_passes_through'] = tag is types.InterestNack and node.calls == []
        else:
            ok, ans = c._validated(cx)
            out['validation_failure_only_after_the_validator_refused'] = tag == 'result' and ok and not (ans is True or ans == 1 and ans is not False)
        return out


@contract
class v1_express_raw_interest(Contract):
    fn = app1.NDNApp.express_raw_interest
    props = ('C03',)
    doc = ('legacy express_raw_interest: exactly one new pending entry (fresh future, the Interest\'s parameters, implicit digest) is '
           'registered under the name without its digest component - in the existing node of that name or a new one - BEFORE the '
           'Interest is handed to the face exactly once; the coroutine returned waits on that same future for the Interest lifetime '
           'and validates with the validator given')
    raises = {}

    def setup(self, cx):
        run = cx.run
        nk = run.choose([('node exists', True), ('no node yet', True)], 'pit')
        node = NodeModel(run, 'node') if nk == 'node exists' else None
        pit = PitModel(run, node)
        face = EvFace(run, True)
        lk = run.choose([('lifetime', True), ('lifetime=None', True)], 'lifetime')
        lifetime = run.input_int('lifetime') if lk == 'lifetime' else None
        from pyvc.symseq import AbsObj
        param = AbsObj('interest_param', dict(lifetime=lifetime, can_be_prefix=run.input_bool('can_be_prefix'),
                                              must_be_fresh=run.input_bool('must_be_fresh')))
        name = PName(run, 'final_name')
        run.assume(Not(name.empty))
        v = UserCoroutineFn('validator', [True])
        dv = UserCoroutineFn('default_validator', [True])
        app_ = mk_app1(cx, pit, face, data_validator=dv)
        data = tuple(Opaque('token', x) for x in ('data name', 'meta', 'content', 'sig', 'raw packet'))
        run.ghost['eri1'] = dict(pit=pit, node=node, face=face, lifetime=lifetime, v=v)
        run.ghost['wfd1'] = dict(data=data, app=app_, dv=dv, v=v)
        return dict(self=app_, final_name=name, interest_param=param, raw_interest=Opaque('token', 'raw interest'),
                    validator=v, need_raw_packet=False)

    def post(c, cx, result, self, final_name, interest_param, raw_interest, validator, need_raw_packet):
        run, it = cx.run, cx.it
        g = run.ghost['eri1']
        pit, node, face = g['pit'], g['node'], g['face']
        out = {'interest_sent_exactly_once': len(face.sent) == 1 and face.sent[0][0] is raw_interest}
        lp = run.ghost.get('aio.loop')
        out['one_fresh_future'] = lp is not None and len(lp.created) == 1
        if not out['one_fresh_future']:
            return out
        fut = lp.created[0]
        digest = final_name.last_type == Component.TYPE_IMPLICIT_SHA256
        key = pit.queried[0] if pit.queried else None
        out['registered_under_the_name_without_digest_component'] = len(pit.queried) == 1 and And(
            Implies(digest, isinstance(key, PName) and key.stripped_of is final_name), Implies(Not(digest), key is final_name))
        events = run.ghost.get('pit.events', [])
        if node is not None:
            ok = [x[0] for x in node.calls] == ['append_interest']
            out['one_entry_appended_to_the_existing_node'] = ok and pit.created is None
            if ok:
                a = node.calls[0][1]
                out['entry_fields'] = len(a) == 3 and a[0] is fut and a[1] is interest_param
                dg = a[2] if len(a) == 3 else None
                out['entry_digest'] = And(Implies(digest, isinstance(dg, PDigest) and dg.of is final_name), Implies(Not(digest), _is_empty_bytes(dg)))
                out['registered_before_sent'] = [e[0] for e in events] == ['append_interest', 'send']
        else:
            nd = pit.created
            ok = isinstance(nd, SymObj) and nd.cls is nt.InterestTreeNode and isinstance(nd.d.get('pending_list'), list) and \
                len(nd.d['pending_list']) == 1
            out['new_node_with_exactly_this_entry'] = ok
            if ok:
                e = nd.d['pending_list'][0]
                okf = isinstance(e, SymObj) and e.d.get('future') is fut
                out['entry_fields'] = And(okf, Iff(e.d.get('can_be_prefix'), interest_param.attrs['can_be_prefix']),
                                          Iff(e.d.get('must_be_fresh'), interest_param.attrs['must_be_fresh'])) if okf else False
                dg = e.d.get('implicit_sha256')
                out['entry_digest'] = And(Implies(digest, isinstance(dg, PDigest) and dg.of is final_name), Implies(Not(digest), _is_empty_bytes(dg)))
        try:
            it.await_value(result)
        except PyExc:
            pass
        w = run.ghost.get('wait_for', [])
        out['returned_coroutine_waits_on_that_future'] = len(w) == 1 and w[0][0] is fut
        used = g['v']
        if w and w[0][2] == 'result':
            out['returned_coroutine_validates_with_the_given_validator'] = len(used.calls) == 1
        return out
