"""Contracts for ndn/encoding/name/Name.py and Component.py (wire-level functions)."""
import struct
import z3
from ndn.encoding.name import Name, Component
from pyvc.zutil import *
from pyvc.contracts import Contract, contract, LoopSpec
from pyvc.run import View, Unsupported
from pyvc.symseq import BufSeq, PS
from spec.tlv import *

TYPE_NAME = 7


def name_hdr(h, buf, offset):
    """(typ, tn, L, sn) of the Name element at buf[offset]"""
    tn = need_at(h, buf, offset)
    return tlval_at(h, buf, offset), tn, tlval_at(h, buf, offset + tn), need_at(h, buf, offset + tn)


def _decode_ghost(it, env, g):
    if isinstance(env['ret'], list) and not env['ret']:
        env['ret'] = BufSeq.empty(it.run, 'memoryview')        # representation change of the empty list
    return {'end': simp(zint(env['offset']) + zint(env['length'])), 'vstart': env['offset']}


def _decode_inv(it, env, g):
    ret, buf, off, ln = env['ret'], env['buf'], zint(env['offset']), zint(env['length'])
    if not isinstance(ret, BufSeq):
        return {'ret_is_list_of_views': False}
    h = it.run.heap
    j = z3.Int('j!inv')
    base = zint(buf.start) + zint(g['vstart'])
    inside = z3.ForAll([j], z3.Implies(z3.And(j >= 0, j < zint(ret.n)), z3.And(
        z3.Select(ret.cells, j) == zint(buf.cell),
        z3.Select(ret.starts, j) == base + PS(ret.lens, j),
        z3.Select(ret.lens, j) >= 2)))
    return {
        'length_nonneg': ln >= 0,                                  # a component never overruns the Name (C07)
        'accounting': off + ln == zint(g['end']),
        'offset_nonneg': off >= 0,
        'count_nonneg': zint(ret.n) >= 0,
        'components_tile': z3.And(off == zint(g['vstart']) + ret.psum(ret.n), inside),
    }


@contract
class decode(Contract):
    fn = Name.decode
    props = ('C07', 'C09', 'C01', 'C06')
    doc = ('Name.decode: Type must be 7; components tile exactly the declared Length (none overruns it); '
           'consumed == header + Length; each component is a view into buf')

    def setup(self, cx):
        return dict(buf=cx.run.input_buf('buf', 'bytes'), offset=cx.run.input_int('offset'))

    def pre(self, cx, buf, offset):
        return And(isinstance(buf, View), zint(offset) >= 0)

    raises = {
        ValueError: lambda cx, buf, offset: And(zint(offset) < zint(buf.length), tlval_at(cx.heap, buf, offset) != TYPE_NAME),
        IndexError: lambda cx, buf, offset: True,
        struct.error: lambda cx, buf, offset: True,
    }
    loops = {1: LoopSpec(_decode_inv, var=lambda it, env, g: env['length'], ghost=_decode_ghost,
                         havoc={'ret': lambda it, env, g: BufSeq.fresh(it.run, 'ret', 'memoryview')})}

    def post(self, cx, result, buf, offset):
        ret, used = result
        h = cx.old_heap
        typ, tn, L, sn = name_hdr(h, buf, offset)
        if not isinstance(ret, BufSeq):
            if isinstance(ret, list) and not ret:
                ret = BufSeq.empty(cx.run, 'memoryview')
            else:
                return {'ret_is_list_of_views': False}
        j = z3.Int('j!post')
        base = zint(buf.start) + zint(offset) + tn + sn
        return {'type_is_name': typ == TYPE_NAME,
                'consumed_exact': Eq(used, tn + sn + L),
                'inside_buffer': zint(offset) + tn + sn + L <= zint(buf.length),
                'components_total': ret.psum(ret.n) == L,
                'components_tile': z3.ForAll([j], z3.Implies(z3.And(j >= 0, j < zint(ret.n)), z3.And(
                    z3.Select(ret.cells, j) == zint(buf.cell),
                    z3.Select(ret.starts, j) == base + PS(ret.lens, j), z3.Select(ret.lens, j) >= 2)))}

    def result(self, cx, buf, offset):
        h = cx.heap
        cx.run.assume(bytes_in_range(h, buf, offset, 18))
        ret = BufSeq.fresh(cx.run, 'name', 'memoryview')
        used = cx.run.fresh_int('name_used')
        return (ret, used)

    def build(self, i):
        return (bytes.fromhex(i['buf']['hex']), i['offset']), {}


def _input_name(cx, label='name'):
    """a FormalName of arbitrary length: list of byte strings (each in some cell, arbitrary bytes)"""
    return cx.run.input_bufseq(label, 'bytearray')


@contract
class encoded_length(Contract):
    fn = Name.encoded_length
    props = ('C09', 'C01', 'C08')
    doc = 'Name.encoded_length == 1 + tlsize(sum of component lengths) + that sum'

    def setup(self, cx):
        return dict(name=_input_name(cx))

    def pre(self, cx, name):
        return And(isinstance(name, BufSeq), name.total() < M64)

    def post(self, cx, result, name):
        total = name.total()
        return {'exact': Eq(result, 1 + tlsize(total) + total)}

    def result(self, cx, name):
        total = name.total()
        cx.run.assume(total >= 0)
        return simp(1 + tlsize(total) + total)


def _encode_inv(it, env, g):
    name, buf, off = g['seq'], env['buf'], zint(env['offset'])
    i = g['i']
    total = name.total()
    base = zint(g['off0']) + 1 + tlsize(total)
    if g['fresh']:
        fr = True
    else:
        fr = g['cx'].frame(buf, g['off0'], simp(zint(g['off0']) + 1 + tlsize(total) + total))
    return {'offset_accounting': off == base + name.psum(i),
            'fits': base + total <= zint(buf.length),
            'header_type': g['buf0'].at(it.run.heap, g['off0']) == TYPE_NAME,
            'header_length': tlenc_at(it.run.heap, g['buf0'], simp(zint(g['off0']) + 1), total),
            'frame': fr}


def _encode_ghost(it, env, g):
    from pyvc.contracts import Ctx
    return {'off0': it.run.ghost['encode.off0'], 'cx': it.run.ghost['encode.cx'], 'buf0': env['buf'],
            'fresh': it.run.ghost['encode.fresh']}


@contract
class encode(Contract):
    fn = Name.encode
    props = ('C09', 'C01', 'C08')
    doc = ('Name.encode writes 07, the shortest-form total length, then every component at consecutive offsets; '
           'IndexError iff a supplied buffer is too small; nothing else is written')
    exact_raises = True

    def setup(self, cx):
        name = _input_name(cx)
        which = cx.run.choose([('buf=None', True), ('buf', True)], 'case')
        buf = None if which == 'buf=None' else cx.run.input_buf('buf', 'bytearray')
        offset = cx.run.input_int('offset') if buf is not None else 0
        cx.run.ghost['encode.off0'] = offset
        cx.run.ghost['encode.cx'] = cx
        cx.run.ghost['encode.fresh'] = buf is None
        return dict(name=name, buf=buf, offset=offset)

    def pre(self, cx, name, buf, offset):
        total = name.total()
        ok = And(zint(offset) >= 0, total < M64)
        if buf is not None:
            ok = And(ok, zint(buf.length) > 0)        # `if not buf` treats an EMPTY supplied buffer as absent
        return ok

    raises = {IndexError: lambda cx, name, buf, offset:
              False if buf is None else zint(buf.length) < 1 + tlsize(name.total()) + name.total() + zint(offset)}

    loops = {1: LoopSpec(_encode_inv, ghost=_encode_ghost)}

    def post(self, cx, result, name, buf, offset):
        total = name.total()
        h = cx.heap
        out = {}
        if buf is None:
            if not isinstance(result, View):
                return {'returns_buffer': False}
            out['fresh_exact_size'] = And(Eq(result.length, 1 + tlsize(total) + total), result.kind == 'bytearray')
        else:
            out['returns_same_buffer'] = result is buf or (isinstance(result, View) and Eq(result.cell, buf.cell) is True)
            out['frame'] = cx.frame(buf, offset, simp(zint(offset) + 1 + tlsize(total) + total))
        out['type_byte'] = result.at(h, offset) == TYPE_NAME
        out['length_shortest'] = tlenc_at(h, result, simp(zint(offset) + 1), total)
        return out

    def result(self, cx, name, buf, offset):
        total = name.total()
        n = simp(1 + tlsize(total) + total)
        if buf is None:
            buf = cx.run.alloc(n, 'bytearray', cx.run.fresh_row('encname'), True)
        else:
            cx.run.havoc_range(buf, offset, n, 'encname')
        cx.run.assume(bytes_in_range(cx.heap, buf, offset, 10))
        return buf

    def post_assumed(self, cx, result, name, buf, offset):
        total = name.total()
        return {'t': result.at(cx.heap, offset) == TYPE_NAME, 'l': tlenc_at(cx.heap, result, simp(zint(offset) + 1), total)}


# ----------------------------------------------------------------------------- Component
def bytes_equal(h1, a, alo, h2, b, blo, n):
    """a[alo:alo+n] (heap h1) == b[blo:blo+n] (heap h2)"""
    k = z3.Int('k!beq')
    return z3.ForAll([k], z3.Implies(z3.And(k >= 0, k < zint(n)), a.at(h1, zint(alo) + k) == b.at(h2, zint(blo) + k)))


@contract
class from_bytes(Contract):
    fn = Component.from_bytes
    props = ('C09', 'C16', 'C19')
    exact_raises = True
    doc = 'Component.from_bytes(v, t) == tlenc(t) ++ tlenc(|v|) ++ v; ValueError iff t not in 1..65535'

    def setup(self, cx):
        return dict(val=cx.run.input_buf('val', 'bytes'), typ=cx.run.input_int('typ'))

    def pre(self, cx, val, typ):
        return And(isinstance(val, View), zint(val.length) < M64)

    raises = {ValueError: lambda cx, val, typ: Or(zint(typ) <= 0, zint(typ) > 65535)}

    def post(self, cx, result, val, typ):
        if not (isinstance(result, View) and result.kind == 'bytearray'):
            return {'is_bytearray': False}
        h = cx.heap
        tn, sn = tlsize(typ), tlsize(val.length)
        return {'length': Eq(result.length, tn + sn + zint(val.length)),
                'type_shortest': tlenc_at(h, result, 0, typ),
                'length_shortest': tlenc_at(h, result, tn, val.length),
                'value': bytes_equal(h, result, tn + sn, cx.old_heap, val, 0, val.length)}

    def result(self, cx, val, typ):
        tn, sn = tlsize(typ), tlsize(val.length)
        n = cx.run.fresh_int('complen')
        cx.run.assume(n == tn + sn + zint(val.length))
        out = cx.run.alloc(n, 'bytearray', cx.run.fresh_row('comp'), True)
        cx.run.copy_into(out, tn + sn, val, val.length)
        cx.run.assume(bytes_in_range(cx.heap, out, 0, 18))
        return out

    def post_assumed(self, cx, result, val, typ):
        return {'t': tlenc_at(cx.heap, result, 0, typ), 'l': tlenc_at(cx.heap, result, tlsize(typ), val.length)}

    def build(self, i):
        return (bytes.fromhex(i['val']['hex']), i['typ']), {}


@contract
class get_type(Contract):
    fn = Component.get_type
    props = ('C09', 'C01', 'C02')
    exact_raises = True
    doc = 'Component.get_type == the var-number at the start of the component'

    def setup(self, cx):
        return dict(component=cx.run.input_buf('component', 'bytes'))

    def pre(self, cx, component):
        return isinstance(component, View)

    raises = {IndexError: lambda cx, component: zint(component.length) == 0,
              struct.error: lambda cx, component: And(zint(component.length) > 0,
                                                      need_at(cx.heap, component, 0) > zint(component.length))}

    def post(self, cx, result, component):
        return {'type': Eq(result, tlval_at(cx.old_heap, component, 0))}

    def result(self, cx, component):
        cx.run.assume(bytes_in_range(cx.heap, component, 0, 9))
        t = cx.run.fresh_int('ctype')
        cx.run.assume(t == tlval_at(cx.heap, component, 0))
        return t

    def build(self, i):
        return (bytes.fromhex(i['component']['hex']),), {}


@contract
class get_value(Contract):
    fn = Component.get_value
    props = ('C09', 'C02')
    exact_raises = True
    doc = 'Component.get_value == view of the bytes after the T and L numbers'

    def setup(self, cx):
        return dict(component=cx.run.input_buf('component', 'bytes'))

    def pre(self, cx, component):
        return isinstance(component, View)

    raises = {IndexError: lambda cx, component: Or(zint(component.length) == 0,
                                                   need_at(cx.heap, component, 0) == zint(component.length)),
              struct.error: lambda cx, component: (lambda L, tn, sn: Or(
                  And(L > 0, tn > L), And(tn < L, tn + sn > L)))(zint(component.length), need_at(cx.heap, component, 0),
                                                              need_at(cx.heap, component, need_at(cx.heap, component, 0)))}

    def post(self, cx, result, component):
        h = cx.old_heap
        tn = need_at(h, component, 0)
        sn = need_at(h, component, tn)
        if not (isinstance(result, View) and result.kind == 'memoryview'):
            return {'is_memoryview': False}
        return {'same_cell': Eq(result.cell, component.cell),
                'start': Eq(result.start, component.start + tn + sn),
                'end': Eq(result.start + result.length, component.start + component.length)}

    def result(self, cx, component):
        h = cx.heap
        cx.run.assume(bytes_in_range(h, component, 0, 18))
        tn = need_at(h, component, 0)
        sn = need_at(h, component, tn)
        st = cx.run.fresh_int('cvstart')
        cx.run.assume(st == tn + sn)
        return View(component.cell, simp(component.start + st), simp(zint(component.length) - st), 'memoryview', component.writable)

    def build(self, i):
        return (bytes.fromhex(i['component']['hex']),), {}


@contract
class from_number(Contract):
    fn = Component.from_number
    props = ('C09', 'C19', 'C16')
    exact_raises = True
    doc = 'typed number component: shortest T, L in {1,2,4,8} minimal, big-endian value'

    def setup(self, cx):
        return dict(val=cx.run.input_int('val'), typ=cx.run.input_int('typ'))

    raises = {struct.error: lambda cx, val, typ: Or(val < 0, val >= M64),
              ValueError: lambda cx, val, typ: And(val >= 0, val < M64, Or(zint(typ) <= 0, zint(typ) > 65535))}

    def post(self, cx, result, val, typ):
        if not (isinstance(result, View) and result.kind == 'bytearray'):
            return {'is_bytearray': False}
        h = cx.heap
        tn, w = tlsize(typ), uint_width(val)
        return {'length': Eq(result.length, tn + 1 + w),
                'type_shortest': tlenc_at(h, result, 0, typ),
                'length_byte': result.at(h, tn) == w,
                'value': Or(*[And(w == k, be(h, result, tn + 1, k) == val) for k in (1, 2, 4, 8)])}

    def result(self, cx, val, typ):
        tn, w = tlsize(typ), uint_width(val)
        n = cx.run.fresh_int('numcomplen')
        cx.run.assume(n == tn + 1 + w)
        out = cx.run.alloc(n, 'bytearray', cx.run.fresh_row('numcomp'), True)
        cx.run.assume(bytes_in_range(cx.heap, out, 0, 18))
        return out

    def build(self, i):
        return (i['val'], i['typ']), {}


@contract
class to_number(Contract):
    fn = Component.to_number
    props = ('C09', 'C19')
    exact_raises = True
    doc = 'Component.to_number == big-endian value of the bytes after the T and L numbers'

    def setup(self, cx):
        return dict(component=cx.run.input_buf('component', 'bytes'))

    def pre(self, cx, component):
        return isinstance(component, View)

    raises = dict(get_value.raises)

    def post(self, cx, result, component):
        h = cx.old_heap
        tn = need_at(h, component, 0)
        sn = need_at(h, component, tn)
        vlen = zint(component.length) - tn - sn
        val = View(component.cell, simp(zint(component.start) + tn + sn), simp(vlen), component.kind)
        return {'value': And(zint(result) >= 0, *[Implies(vlen == w, zint(result) == be(h, component, tn + sn, w)) for w in (1, 2, 4, 8)]),
                'empty_is_zero': Implies(vlen == 0, zint(result) == 0),
                'is_big_endian_value': zint(result) == beint_term(h, val)}

    def result(self, cx, component):
        h = cx.heap
        cx.run.assume(bytes_in_range(h, component, 0, 26))
        tn = need_at(h, component, 0)
        sn = need_at(h, component, tn)
        val = View(component.cell, simp(zint(component.start) + tn + sn), simp(zint(component.length) - tn - sn), component.kind)
        cx.run.assume(beint_axioms(h, val))
        r = cx.run.fresh_int('number')
        cx.run.assume(r == beint_term(h, val))
        return r

    def build(self, i):
        return (bytes.fromhex(i['component']['hex']),), {}


@contract
class normalize(Contract):
    fn = Name.normalize
    props = ('C09', 'C04', 'C19')
    doc = ('Name.normalize: a list of encoded components is returned as a (shallow) copy with the same components; an encoded '
           'Name is decoded; text goes through from_str; anything else is a TypeError')
    raises = {TypeError: lambda cx, name: not isinstance(name, (BufSeq, View, str)) and type(name).__name__ != 'SymStr',
              ValueError: lambda cx, name: not isinstance(name, BufSeq),
              IndexError: lambda cx, name: isinstance(name, View), struct.error: lambda cx, name: isinstance(name, View)}
    loops = {1: LoopSpec(lambda it, env, g: {'same_list': env['ret'] is g['ret0']},
                         ghost=lambda it, env, g: {'ret0': env['ret']})}

    def setup(self, cx):
        k = cx.run.choose([('list', True), ('bytes', True), ('other', True)], 'name')
        if k == 'list':
            return dict(name=_input_name(cx))
        if k == 'bytes':
            return dict(name=cx.run.input_buf('name', 'bytes'))
        return dict(name=5)

    def post(self, cx, result, name):
        if isinstance(name, BufSeq):
            ok = isinstance(result, BufSeq) and result is not name
            return {'copy_of_the_component_list': ok and And(Eq(result.n, name.n), result.cells == name.cells,
                                                             result.starts == name.starts, result.lens == name.lens)}
        return {'component_list': isinstance(result, BufSeq)}

    def result(self, cx, name):
        if isinstance(name, BufSeq):
            return name.copy()
        return BufSeq.fresh(cx.run, 'normalized', 'memoryview')


# ----------------------------------------------------------------------------- typed-number wrappers (C09, C19, C16)
def _num_wrapper(fn_, typ_, pname):
    class _C(Contract):
        fn = fn_
        props = ('C09', 'C19', 'C16')
        exact_raises = True
        doc = (f'Component.{fn_.__name__}(n) is the typed number component of type {typ_}: shortest type number, smallest legal integer '
               f'width, big-endian value n; struct.error exactly for n outside 0 .. 2^64-1')
        raises = {struct.error: lambda cx, **p: Or(zint(p[pname]) < 0, zint(p[pname]) >= M64)}

        def setup(self, cx):
            return {pname: cx.run.input_int(pname)}

        def post(self, cx, result, **p):
            val = p[pname]
            if not (isinstance(result, View) and result.kind == 'bytearray'):
                return {'is_bytearray': False}
            h = cx.heap
            tn, w = tlsize(typ_), uint_width(val)
            return {'length': Eq(result.length, tn + 1 + w),
                    'type_number': tlenc_at(h, result, 0, typ_),
                    'length_byte': result.at(h, tn) == w,
                    'value': Or(*[And(w == k, be(h, result, tn + 1, k) == val) for k in (1, 2, 4, 8)])}

        def build(self, i):
            return (i[pname],), {}
    _C.__name__ = fn_.__name__
    return contract(_C)


_num_wrapper(Component.from_segment, Component.TYPE_SEGMENT, 'segment')
_num_wrapper(Component.from_byte_offset, Component.TYPE_BYTE_OFFSET, 'offset')
_num_wrapper(Component.from_sequence_num, Component.TYPE_SEQUENCE_NUM, 'seq_num')
_num_wrapper(Component.from_version, Component.TYPE_VERSION, 'version')
_num_wrapper(Component.from_timestamp, Component.TYPE_TIMESTAMP, 'timestamp')


# ----------------------------------------------------------------------------- is_prefix / to_bytes / from_bytes (C09)
@contract
class is_prefix(Contract):
    fn = Name.is_prefix
    props = ('C09',)
    doc = ('Name.is_prefix(lhs, rhs) on component lists of ANY length: True exactly when lhs is not longer than rhs and every '
           'component of lhs equals, byte for byte, the component of rhs at the same position (component-wise equality); other '
           'input forms go through Name.normalize (its own contract) first')
    raises = {}

    def setup(self, cx):
        return dict(lhs=_input_name(cx, 'lhs'), rhs=_input_name(cx, 'rhs'))

    def post(self, cx, result, lhs, rhs):
        nl, nr = zint(lhs.n), zint(rhs.n)
        spec = z3.And(nl <= nr, lhs.elems_equal(cx.heap, rhs, nl))
        r = result if is_sym(result) else z3.BoolVal(bool(result))
        return {'returns_a_truth_value': is_sym(result) or isinstance(result, bool),
                'true_iff_not_longer_and_componentwise_equal': r == spec,
                'arguments_not_modified': And(Eq(lhs.n, cx.entry['lhs'].n), Eq(rhs.n, cx.entry['rhs'].n))}


@contract
class name_from_bytes(Contract):
    fn = Name.from_bytes
    props = ('C09',)
    doc = ('Name.from_bytes(buf) is the component list of Name.decode(buf) (whose contract says: the components tile the declared '
           'Length exactly); it raises only what decode raises')
    raises = {ValueError: lambda cx, buf: True, IndexError: lambda cx, buf: True, struct.error: lambda cx, buf: True}

    def setup(self, cx):
        return dict(buf=cx.run.input_buf('buf', 'bytes'))

    def post(self, cx, result, buf):
        return {'component_list_of_decode': isinstance(result, BufSeq)}
