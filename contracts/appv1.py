"""Contract for the legacy front-end's Interest dispatch (ndn/app.py NDNApp._on_interest; properties C04, C05)."""
import logging
import z3
from ndn import app as app1, name_tree as nt
from ndn.encoding import SignaturePtrs, InterestParam
from pyvc.zutil import *
from pyvc.contracts import Contract, contract
from pyvc.values import SymObj, Opaque
from contracts.assumed_aio import UserFn, UserCoroutineFn, Fib, Face
from contracts.appv2_small import tok          # also registers the assumed params_sha256_checker / Name.to_str summaries

ANSWERS = [True, False, None, 1, 0]


def _truthy(v):
    return v is True or (v == 1 and v is not False)


@contract
class on_interest_v1(Contract):
    fn = app1.NDNApp._on_interest
    props = ('C04', 'C05', 'C06')
    doc = ('legacy _on_interest: the only handler that can be invoked is the one stored at the longest registered prefix (assumed '
           'pygtrie contract), at most once, none when nothing matches or the node has no callback; an Interest with '
           'ApplicationParameters or a signature is dropped unless its parameters digest is right; a SIGNED Interest reaches the '
           'handler only after the validator of that prefix - else the application\'s interest validator - accepted (name, '
           'signature); unsigned Interests never consult a validator; the handler gets (name, param, app_param) plus raw packet / '
           'signature pointers exactly when the registration asked for them')
    raises = {}
    policy = {'eager_tasks': True}

    def setup(self, cx):
        run = cx.run
        nk = run.choose([('no prefix matches', True), ('node without callback', True), ('node', True)], 'fib')
        handler = UserFn('handler')
        node = None
        nodeval = None
        if nk != 'no prefix matches':
            vk = run.choose([('validator=None', True), ('validator', True)], 'validator')
            nodeval = UserCoroutineFn('node_validator', ANSWERS) if vk == 'validator' else None
            ek = run.choose([('no extra', True), ('raw_packet', True), ('sig_ptrs', True), ('both', True), ('both false', True)], 'extra_param')
            extra = {'no extra': None, 'raw_packet': {'raw_packet': True}, 'sig_ptrs': {'sig_ptrs': True},
                     'both': {'raw_packet': True, 'sig_ptrs': True}, 'both false': {'raw_packet': False, 'sig_ptrs': False}}[ek]
            node = SymObj(nt.PrefixTreeNode, dict(callback=handler if nk == 'node' else None, validator=nodeval, extra_param=extra))
        appval = UserCoroutineFn('app_validator', ANSWERS)
        fib = Fib(node)
        self_ = SymObj(app1.NDNApp, dict(logger=logging.getLogger('ndn.app'), face=Face(run, True), _prefix_tree=fib, _int_tree=None,
                                         int_validator=appval, data_validator=None, _autoreg_routes=[]))
        ak = run.choose([('app_param=None', True), ('app_param', True)], 'app_param')
        app_param = None if ak == 'app_param=None' else run.input_buf('app_param', 'bytes')
        sk = run.choose([('unsigned', True), ('signed', True)], 'sig')
        sig = SymObj(SignaturePtrs, dict(signature_info=None if sk == 'unsigned' else tok('siginfo'), signature_covered_part=[],
                                         signature_value_buf=None, digest_covered_part=[], digest_value_buf=None))
        run.ghost['oi1'] = dict(handler=handler, node=node, nodeval=nodeval, appval=appval, fib=fib)
        return dict(self=self_, name=tok('name'), param=tok('param'), app_param=app_param, sig=sig, raw_packet=tok('raw'))

    def post(c, cx, result, self, name, param, app_param, sig, raw_packet):
        g = cx.run.ghost
        d = g['oi1']
        handler, node, fib = d['handler'], d['node'], d['fib']
        out = {'lookup_is_longest_prefix_of_the_interest_name': fib.queries == [('longest_prefix', name)]}
        called = len(handler.calls)
        out['handler_invoked_at_most_once'] = called <= 1
        if node is None or node.d['callback'] is None:
            out['no_registered_handler_no_delivery'] = called == 0
            return out
        signed = sig.d['signature_info'] is not None
        needs_digest = app_param is not None or signed
        used = d['nodeval'] if d['nodeval'] is not None else d['appval']
        other = d['appval'] if d['nodeval'] is not None else None
        if not needs_digest:
            out['plain_interest_delivered_without_any_check'] = called == 1 and g.get('digest_checked', 0) == 0 and \
                used.calls == [] and (other is None or other.calls == [])
        else:
            digest_ok = g.get('digest_ok', False)
            out['digest_checked_once_before_anything'] = g.get('digest_checked', 0) == 1
            if signed:
                asked = len(used.calls) == 1 and used.calls[0][0] == (name, sig) and (other is None or other.calls == [])
                ans = g.get(f'{used.label}.returned', 'not asked') if used.calls else 'not asked'
                if called == 1:
                    out['signed_interest_delivered_only_after_digest_and_the_right_validator_accepted'] = And(digest_ok, asked and ans != 'not asked' and _truthy(ans))
                else:
                    out['signed_interest_dropped_only_if_bad_digest_or_refused'] = Or(Not(digest_ok), used.calls != [] and ans != 'not asked' and not _truthy(ans))
            else:
                out['unsigned_interest_never_consults_a_validator'] = used.calls == [] and (other is None or other.calls == [])
                if called == 1:
                    out['parameterised_interest_delivered_only_with_right_digest'] = digest_ok
                else:
                    out['parameterised_interest_dropped_only_for_bad_digest'] = Not(digest_ok)
        if called == 1:
            args, kw = handler.calls[0]
            extra = node.d['extra_param'] or {}
            want = {}
            if extra.get('raw_packet', False):
                want['raw_packet'] = raw_packet
            if extra.get('sig_ptrs', False):
                want['sig_ptrs'] = sig
            out['handler_gets_name_param_app_param_and_the_extras_it_asked_for'] = len(args) == 3 and args[0] is name and args[1] is param and \
                args[2] is app_param and set(kw) == set(want) and all(kw[k] is want[k] for k in want)
        return out
