"""Contracts for RepeatedField and MapField of ndn/encoding/tlv_model.py (property C08), proved against the abstract Field
interface of their element / key / value field (any Field subclass that honours the interface: announces a size >= 0,
writes exactly that many bytes at the given offset, returns it) for value lists / dicts of ANY length.

Ghost: ESZ[i] (KSZ[i], VSZ[i]) = size announced for element i; PS = prefix sums; the world records where each element
was encoded (ENCOFF) and how often (CNT)."""
import struct
import z3
from ndn.encoding import tlv_model as tm
from pyvc.zutil import *
from pyvc.contracts import Contract, contract, LoopSpec
from pyvc.run import View, Unsupported
from pyvc.values import SymObj, Opaque, PyExc
from pyvc.symseq import PS, SymEnumerate
from contracts.assumed_aio import _M

ENCODE_RAISES = (struct.error, IndexError, ValueError, TypeError)
PARSE_RAISES = (tm.DecodeError, IndexError, ValueError, struct.error, UnicodeDecodeError)
INTARR = z3.ArraySort(INT, INT)


def psum(run, a, k, n):
    k = simp(zint(k))
    run.assume(PS(a, z3.IntVal(0)) == 0)
    run.assume(z3.Implies(z3.And(zint(k) >= 0, zint(k) <= zint(n)), z3.And(PS(a, zint(k)) >= 0, PS(a, zint(k)) <= PS(a, zint(n)))))
    run.assume(z3.Implies(zint(k) >= 0, z3.And(z3.Select(a, zint(k)) >= 0, PS(a, zint(k) + 1) == PS(a, zint(k)) + z3.Select(a, zint(k)))))
    return PS(a, zint(k))


class ValTok:
    def __init__(self, role, i):
        self.role, self.i = role, i


class EWorld:
    def __init__(self, run):
        self.run = run
        self.encoff = {}          # role -> array: offset at which element i was encoded
        self.cnt = {}             # role -> array: how often element i was encoded
        for r in ('elem', 'key', 'val'):
            self.encoff[r] = z3.K(INT, z3.IntVal(-1))
            self.cnt[r] = z3.K(INT, z3.IntVal(0))
        self.names = []

    def havoc(self):
        for r in ('elem', 'key', 'val'):
            self.encoff[r] = z3.Const(self.run.fresh_name(f'h_encoff_{r}'), INTARR)
            self.cnt[r] = z3.Const(self.run.fresh_name(f'h_cnt_{r}'), INTARR)


class ElemField:
    """the element / key / value field: the Field interface over values ValTok(role, i)"""

    def __init__(self, run, role, sizes, world):
        self.run, self.role, self.sizes, self.w = run, role, sizes, world
        self.parse_calls = []

    def setattr_(self, it, name, val, node):
        if name != 'name':
            raise Unsupported(f'assignment to Field.{name}')
        self.w.names.append((self.role, val))

    def getattr_(self, it, name, node):
        run, role = it.run, self.role
        if name == 'type_num':
            return run.ghost['rep']['type_num']
        if name == 'encoded_length':
            def f(it_, val, markers):
                if not isinstance(val, ValTok) or val.role != role:
                    raise Unsupported('element field applied to a value of another role')
                tag = run.choose([('normal', True), (TypeError, True), (ValueError, True)], 'iface.encoded_length')
                if tag != 'normal':
                    raise PyExc(tag, ('Field.encoded_length (interface)',), getattr(node, 'lineno', None), it_.where())
                r = z3.Select(self.sizes, zint(val.i))
                run.assume(r >= 0)
                return r
            return _M(f)
        if name == 'encode_into':
            def f(it_, val, markers, wire, offset):
                if not isinstance(val, ValTok) or val.role != role:
                    raise Unsupported('element field applied to a value of another role')
                run.oblige(f'{it_.where()}#call[Field.encode_into].pre:offset_nonneg', zint(offset) >= 0)
                tag = run.choose([('normal', True)] + [(e, True) for e in ENCODE_RAISES], 'iface.encode_into')
                if tag != 'normal':
                    raise PyExc(tag, ('Field.encode_into (interface)',), getattr(node, 'lineno', None), it_.where())
                ln = z3.Select(self.sizes, zint(val.i))
                run.assume(z3.And(ln >= 0, zint(offset) + ln <= zint(wire.length)))
                run.havoc_range(wire, offset, ln, 'elembytes')
                w = self.w
                w.encoff[role] = z3.Store(w.encoff[role], zint(val.i), zint(offset))
                w.cnt[role] = z3.Store(w.cnt[role], zint(val.i), z3.Select(w.cnt[role], zint(val.i)) + 1)
                return ln
            return _M(f)
        if name == 'parse_from':
            def f(it_, instance, markers, wire, offset, length, offset_btl):
                tag = run.choose([('normal', True)] + [(e, True) for e in PARSE_RAISES], 'iface.parse_from')
                if tag != 'normal':
                    raise PyExc(tag, ('Field.parse_from (interface)',), getattr(node, 'lineno', None), it_.where())
                v = Opaque('parsed', f'parsed {role} #{len(self.parse_calls)}')
                self.parse_calls.append(((instance, markers, wire, offset, length, offset_btl), v))
                return v
            return _M(f)
        raise Unsupported(f'element field attribute {name}')


class ValSeq:
    def __init__(self, run, n, role='elem'):
        self.run, self.n, self.role = run, n, role

    def seq_len(self):
        return self.n

    def len_(self, it, node):
        return self.n

    def truth(self, it):
        return simp(zint(self.n) != 0)

    def elem(self, it, i):
        return ValTok(self.role, simp(zint(i)))

    def enumerate_(self, it, start, node):
        return SymEnumerate(self, start)

    def iterate(self, it, node):
        raise Unsupported('iteration over the value list needs a loop specification')


class PairSeq(ValSeq):
    def elem(self, it, i):
        i = simp(zint(i))
        return (ValTok('key', i), ValTok('val', i))


class DictVal:
    """the dict handed to a MapField: items() is a sequence of n (key, value) pairs in insertion order"""

    def __init__(self, run, n):
        self.run, self.n = run, n

    def truth(self, it):
        return simp(zint(self.n) != 0)

    def getattr_(self, it, name, node):
        if name == 'items':
            return _M(lambda it_: PairSeq(self.run, self.n))
        raise Unsupported(f'dict.{name}')


def mk_rep(cx, map_=False):
    run = cx.run
    n = run.input_int('n_values')
    run.assume(n >= 0)
    w = EWorld(run)
    g = dict(n=n, w=w, type_num=run.input_int('type_num'))
    if map_:
        g['ksz'], g['vsz'] = run.fresh_row('ksz'), run.fresh_row('vsz')
        kf, vf = ElemField(run, 'key', g['ksz'], w), ElemField(run, 'val', g['vsz'], w)
        self_ = SymObj(tm.MapField, dict(name='m', type_num=g['type_num'], key_type=kf, value_type=vf))
        g['kf'], g['vf'] = kf, vf
    else:
        g['esz'] = run.fresh_row('esz')
        ef = ElemField(run, 'elem', g['esz'], w)
        self_ = SymObj(tm.RepeatedField, dict(name='r', type_num=g['type_num'], element_type=ef))
        g['ef'] = ef
    run.ghost['rep'] = g
    return self_, g


def _total(run, g, k):
    if 'esz' in g:
        return psum(run, g['esz'], k, g['n'])
    return psum(run, g['ksz'], k, g['n']) + psum(run, g['vsz'], k, g['n'])


# ----------------------------------------------------------------------------- encoded_length
def _len_inv(it, env, g):
    gg = it.run.ghost['rep']
    return {'sum_of_the_sizes_announced_so_far': Eq(zint(env['ret']), _total(it.run, gg, g['i']))}


def _keep(name):
    return lambda it, env, g: env[name]


class _LenBase(Contract):
    props = ('C08',)
    raises = {TypeError: lambda cx, **p: True, ValueError: lambda cx, **p: True}

    def post(c, cx, result, self, val, markers):
        g = cx.run.ghost['rep']
        if val is None:
            return {'no_value_announces_nothing': result == 0}
        return {'announces_the_sum_of_all_element_sizes': Eq(zint(result), _total(cx.run, g, g['n']))}


@contract
class rep_encoded_length(_LenBase):
    fn = tm.RepeatedField.encoded_length
    doc = ('RepeatedField.encoded_length, value lists of ANY length over any element field honouring the Field interface: the size '
           'announced is the sum of the sizes the element field announces for every element (0 for None / empty)')
    loops = {1: LoopSpec(_len_inv)}

    def setup(self, cx):
        self_, g = mk_rep(cx)
        k = cx.run.choose([('list', True), ('None', True)], 'val')
        return dict(self=self_, val=ValSeq(cx.run, g['n']) if k == 'list' else None, markers={})


@contract
class map_encoded_length(_LenBase):
    fn = tm.MapField.encoded_length
    doc = ('MapField.encoded_length, dicts of ANY size: the sum of the sizes announced by the key field and the value field for '
           'every item (0 for None / empty)')
    loops = {1: LoopSpec(_len_inv, havoc={'val': _keep('val')})}

    def setup(self, cx):
        self_, g = mk_rep(cx, True)
        k = cx.run.choose([('dict', True), ('None', True)], 'val')
        return dict(self=self_, val=DictVal(cx.run, g['n']) if k == 'dict' else None, markers={})


# ----------------------------------------------------------------------------- encode_into
def _layout(run, g, w, upto, off0):
    """elements 0..upto-1 were encoded once each at consecutive offsets from off0, later ones not at all"""
    a = z3.Int('a!lay')
    n = g['n']
    seen = z3.And(a >= 0, a < zint(upto))
    if 'esz' in g:
        return z3.ForAll([a], z3.And(
            z3.Implies(seen, z3.And(z3.Select(w.cnt['elem'], a) == 1, z3.Select(w.encoff['elem'], a) == zint(off0) + PS(g['esz'], a))),
            z3.Implies(z3.Not(seen), z3.Select(w.cnt['elem'], a) == 0)))
    base = zint(off0) + PS(g['ksz'], a) + PS(g['vsz'], a)
    return z3.ForAll([a], z3.And(
        z3.Implies(seen, z3.And(z3.Select(w.cnt['key'], a) == 1, z3.Select(w.cnt['val'], a) == 1,
                                z3.Select(w.encoff['key'], a) == base, z3.Select(w.encoff['val'], a) == base + z3.Select(g['ksz'], a))),
        z3.Implies(z3.Not(seen), z3.And(z3.Select(w.cnt['key'], a) == 0, z3.Select(w.cnt['val'], a) == 0))))


def _enc_inv(it, env, g):
    run = it.run
    gg = run.ghost['rep']
    off0 = gg['off0']
    tot = _total(run, gg, g['i'])
    return {'offset_is_start_plus_sizes_so_far': Eq(zint(env['offset']), zint(off0) + tot),
            'inside_the_buffer': zint(env['offset']) <= zint(env['wire'].length),
            'elements_so_far_encoded_once_each_at_consecutive_offsets': _layout(run, gg, gg['w'], g['i'], off0),
            'nothing_outside_the_written_range_changed': gg['cx'].frame(env['wire'], off0, simp(zint(off0) + tot))}


def _enc_havoc_world(it, env, g):
    it.run.ghost['rep']['w'].havoc()
    run = it.run
    wire = env['wire']
    run.havoc_range(wire, 0, wire.length, 'loopbytes')
    return wire


class _EncBase(Contract):
    props = ('C08',)
    raises = {e: (lambda cx, **p: True) for e in ENCODE_RAISES}

    def pre(c, cx, self, val, markers, wire, offset):
        return And(zint(offset) >= 0, zint(offset) <= zint(wire.length))

    def post(c, cx, result, self, val, markers, wire, offset):
        run = cx.run
        g = run.ghost['rep']
        if val is None:
            return {'no_value_writes_nothing': And(result == 0, cx.unchanged_cell(wire))}
        tot = _total(run, g, g['n'])
        return {'returns_the_announced_size': Eq(zint(result), tot),
                'every_element_encoded_once_in_order_at_consecutive_offsets': _layout(run, g, g['w'], g['n'], offset),
                'nothing_outside_the_written_range_changed': cx.frame(wire, offset, simp(zint(offset) + tot))}


@contract
class rep_encode_into(_EncBase):
    fn = tm.RepeatedField.encode_into
    doc = ('RepeatedField.encode_into, value lists of ANY length: every element is encoded exactly once, in order, element i at '
           'offset + (sizes of elements before it); the result is the announced total and nothing outside [offset, offset+total) '
           'changes; None writes nothing')
    loops = {1: LoopSpec(_enc_inv, havoc={'wire': _enc_havoc_world})}

    def setup(self, cx):
        run = cx.run
        self_, g = mk_rep(cx)
        k = run.choose([('list', True), ('None', True)], 'val')
        wire = run.input_buf('wire', 'memoryview', True)
        offset = run.input_int('offset')
        g.update(off0=offset, cx=cx)
        return dict(self=self_, val=ValSeq(run, g['n']) if k == 'list' else None, markers={}, wire=wire, offset=offset)


@contract
class map_encode_into(_EncBase):
    fn = tm.MapField.encode_into
    doc = ('MapField.encode_into, dicts of ANY size: every item is encoded once, in insertion order, key element then value element, '
           'at consecutive offsets; the result is the announced total, nothing outside the range changes')
    loops = {1: LoopSpec(_enc_inv, havoc={'wire': _enc_havoc_world, 'val': _keep('val')})}

    def setup(self, cx):
        run = cx.run
        self_, g = mk_rep(cx, True)
        k = run.choose([('dict', True), ('None', True)], 'val')
        wire = run.input_buf('wire', 'memoryview', True)
        offset = run.input_int('offset')
        g.update(off0=offset, cx=cx)
        return dict(self=self_, val=DictVal(run, g['n']) if k == 'dict' else None, markers={}, wire=wire, offset=offset)


# ----------------------------------------------------------------------------- parse side
def _parse_args(cx):
    run = cx.run
    return dict(markers={}, wire=run.input_buf('wire', 'memoryview'), offset=run.input_int('offset'), length=run.input_int('length'),
                offset_btl=run.input_int('offset_btl'))


@contract
class rep_parse_from(Contract):
    fn = tm.RepeatedField.parse_from
    props = ('C08',)
    doc = ('RepeatedField.parse_from: the element parser is called exactly once with this very element (instance, markers, wire, offset, '
           'length, offset_btl) and its value is appended after the values parsed before, which stay as they are; only documented '
           'decoding errors are raised.  (Proved for an instance with no value yet and one with two earlier values.)')
    raises = {e: (lambda cx, **p: True) for e in PARSE_RAISES}

    def setup(self, cx):
        run = cx.run
        self_, g = mk_rep(cx)
        k = run.choose([('no value yet', True), ('two earlier values', True)], 'instance')
        earlier = [] if k == 'no value yet' else [Opaque('parsed', 'e0'), Opaque('parsed', 'e1')]
        inst = SymObj(object, {} if k == 'no value yet' else {'r': list(earlier)})
        g['earlier'] = earlier
        p = _parse_args(cx)
        return dict(self=self_, instance=inst, **p)

    def post(c, cx, result, self, instance, markers, wire, offset, length, offset_btl):
        g = cx.run.ghost['rep']
        ef = g['ef']
        ok = len(ef.parse_calls) == 1
        out = {'element_parser_called_once': ok}
        if ok:
            a, v = ef.parse_calls[0]
            out['with_this_element'] = a[0] is instance and a[1] is markers and a[2] is wire and a[3] is offset and a[4] is length and \
                a[5] is offset_btl
            lst = instance.d.get('r')
            out['value_appended_after_the_earlier_ones'] = isinstance(lst, list) and result is lst and len(lst) == len(g['earlier']) + 1 and \
                all(x is y for x, y in zip(lst, g['earlier'])) and lst[-1] is v
        return out


@contract
class map_parse_from(Contract):
    fn = tm.MapField.parse_from
    props = ('C08',)
    doc = ('MapField.parse_from (a key element): the key parser is called once with this element, the key is remembered as the last '
           'key of this field and the dict is not changed yet; only documented decoding errors are raised')
    raises = {e: (lambda cx, **p: True) for e in PARSE_RAISES}

    def setup(self, cx):
        run = cx.run
        self_, g = mk_rep(cx, True)
        k = run.choose([('no value yet', True), ('one earlier item', True)], 'instance')
        earlier = {} if k == 'no value yet' else {'k0': Opaque('parsed', 'v0')}
        inst = SymObj(object, {} if k == 'no value yet' else {'m': dict(earlier)})
        g['earlier'] = earlier
        return dict(self=self_, instance=inst, **_parse_args(cx))

    def post(c, cx, result, self, instance, markers, wire, offset, length, offset_btl):
        g = cx.run.ghost['rep']
        kf, vf = g['kf'], g['vf']
        ok = len(kf.parse_calls) == 1 and vf.parse_calls == []
        out = {'key_parser_called_once_value_parser_not': ok}
        if ok:
            a, v = kf.parse_calls[0]
            out['with_this_element'] = a[2] is wire and a[3] is offset and a[4] is length and a[5] is offset_btl
            out['key_remembered_for_the_value_that_follows'] = markers.get('m#last_key') is v
            out['dict_not_changed_yet'] = instance.d.get('m') == g['earlier'] and result is instance.d.get('m')
        return out


@contract
class map_parse_value(Contract):
    fn = tm.MapField.parse_value
    props = ('C08',)
    doc = ('MapField.parse_value (the value element after a key): the value parser is called once with this element and its value is '
           'stored under the key parsed last; earlier items stay; only documented decoding errors are raised')
    raises = {e: (lambda cx, **p: True) for e in PARSE_RAISES}

    def setup(self, cx):
        run = cx.run
        self_, g = mk_rep(cx, True)
        k = run.choose([('no value yet', True), ('one earlier item', True)], 'instance')
        earlier = {} if k == 'no value yet' else {'k0': Opaque('parsed', 'v0')}
        inst = SymObj(object, {} if k == 'no value yet' else {'m': dict(earlier)})
        g['earlier'] = earlier
        p = _parse_args(cx)
        p['markers'] = {'m#last_key': 'k1'}
        return dict(self=self_, instance=inst, **p)

    def post(c, cx, result, self, instance, markers, wire, offset, length, offset_btl):
        g = cx.run.ghost['rep']
        kf, vf = g['kf'], g['vf']
        ok = len(vf.parse_calls) == 1 and kf.parse_calls == []
        out = {'value_parser_called_once_key_parser_not': ok}
        if ok:
            a, v = vf.parse_calls[0]
            out['with_this_element'] = a[2] is wire and a[3] is offset and a[4] is length and a[5] is offset_btl
            d = instance.d.get('m')
            out['stored_under_the_last_key_earlier_items_kept'] = isinstance(d, dict) and result is d and d.get('k1') is v and \
                all(d.get(k) is x for k, x in g['earlier'].items()) and len(d) == len(g['earlier']) + 1
        return out
