"""Contracts for ndn/encoding/tlv_var.py (real functions, sidecar)."""
import struct
import z3
from ndn.encoding import tlv_var
from pyvc.zutil import *
from pyvc.contracts import Contract, contract, LoopSpec
from pyvc.run import View
from spec.tlv import *

P_CODEC = ('C01', 'C07', 'C08', 'C09', 'C10', 'C16')


@contract
class get_tl_num_size(Contract):
    fn = tlv_var.get_tl_num_size
    props = P_CODEC
    doc = 'result is the length of the shortest NDN var-number encoding of val'

    def setup(self, cx):
        return dict(val=cx.run.input_int('val'))

    def pre(self, cx, val):
        return And(val >= 0, val < M64)

    def post(self, cx, result, val):
        return {'shortest': Eq(result, tlsize(val))}

    def result(self, cx, val):
        return tlsize(val)

    def build(self, i):
        return (i['val'],), {}


@contract
class write_tl_num(Contract):
    fn = tlv_var.write_tl_num
    props = P_CODEC
    exact_raises = True
    doc = 'writes the shortest-form encoding of val at buf[offset:], returns its size, touches nothing else'

    def setup(self, cx):
        return dict(val=cx.run.input_int('val'), buf=cx.run.input_buf('buf', 'bytearray'), offset=cx.run.input_int('offset'))

    def pre(self, cx, val, buf, offset):
        return And(val >= 0, val < M64, zint(offset) >= 0, isinstance(buf, View) and buf.writable)

    raises = {struct.error: lambda cx, val, buf, offset: zint(offset) + tlsize(val) > zint(buf.length)}

    def post(self, cx, result, val, buf, offset):
        return {'size': Eq(result, tlsize(val)),
                'bytes': tlenc_at(cx.heap, buf, offset, val),
                'frame': cx.frame(buf, offset, offset + tlsize(val))}

    def result(self, cx, val, buf, offset):
        n = tlsize(val)
        cx.run.havoc_range(buf, offset, n, 'tl')
        cx.run.assume(bytes_in_range(cx.heap, buf, offset, 9))
        return n

    def post_assumed(self, cx, result, val, buf, offset):
        return {'bytes': tlenc_at(cx.heap, buf, offset, val)}

    def build(self, i):
        return (i['val'], bytearray.fromhex(i['buf']['hex']), i['offset']), {}


@contract
class parse_tl_num(Contract):
    fn = tlv_var.parse_tl_num
    props = P_CODEC
    exact_raises = True
    doc = 'reads the var-number at buf[offset:]: (value, bytes consumed); IndexError / struct.error exactly when it does not fit'

    def setup(self, cx):
        return dict(buf=cx.run.input_buf('buf', 'bytes'), offset=cx.run.input_int('offset'))

    def pre(self, cx, buf, offset):
        return zint(offset) >= 0

    raises = {
        TypeError: lambda cx, buf, offset: not isinstance(buf, View),          # e.g. None: not subscriptable
        IndexError: lambda cx, buf, offset: isinstance(buf, View) and zint(offset) >= zint(buf.length),
        struct.error: lambda cx, buf, offset: isinstance(buf, View) and And(
            zint(offset) < zint(buf.length), zint(offset) + need_at(cx.heap, buf, offset) > zint(buf.length)),
    }

    def post(self, cx, result, buf, offset):
        v, n = result
        return {'size': Eq(n, need_at(cx.old_heap, buf, offset)),
                'value': Eq(v, tlval_at(cx.old_heap, buf, offset)),
                'range': And(zint(v) >= 0, zint(v) < M64)}

    def result(self, cx, buf, offset):
        h = cx.heap
        cx.run.assume(bytes_in_range(h, buf, offset, 9))
        v, n = cx.run.fresh_int('tlv'), cx.run.fresh_int('tln')
        cx.run.assume(And(v == tlval_at(h, buf, offset), n == need_at(h, buf, offset)))
        return (v, n)

    def build(self, i):
        return (bytes.fromhex(i['buf']['hex']), i['offset']), {}


@contract
class pack_uint_bytes(Contract):
    fn = tlv_var.pack_uint_bytes
    props = ('C08', 'C09', 'C19')
    exact_raises = True
    doc = 'big-endian NonNegativeInteger in the smallest legal width 1/2/4/8'

    def setup(self, cx):
        return dict(val=cx.run.input_int('val'))

    raises = {struct.error: lambda cx, val: Or(val < 0, val >= M64)}

    def post(self, cx, result, val):
        w = uint_width(val)
        h = cx.heap
        return {'is_bytes': isinstance(result, View) and result.kind == 'bytes',
                'width': Eq(result.length, w),
                'value': Or(*[And(w == k, be(h, result, 0, k) == val) for k in (1, 2, 4, 8)])}

    def result(self, cx, val):
        w = cx.run.fresh_int('uw')
        cx.run.assume(w == uint_width(val))
        out = cx.run.alloc(w, 'bytes', cx.run.fresh_row('uint'), False)
        cx.run.assume(bytes_in_range(cx.heap, out, 0, 8))
        return out

    def build(self, i):
        return (i['val'],), {}


def _hdr(cx, wire):
    """(typ, tn, size, sn) of the element starting at wire[0], read from the entry heap"""
    h = cx.old_heap
    tn = need_at(h, wire, 0)
    return tlval_at(h, wire, 0), tn, tlval_at(h, wire, tn), need_at(h, wire, tn)


@contract
class parse_and_check_tl(Contract):
    fn = tlv_var.parse_and_check_tl
    props = ('C01', 'C06', 'C07', 'C16')
    exact_raises = True
    doc = 'outer element check: Type as expected, Length == remaining bytes; returns the Value as a view of wire'

    def setup(self, cx):
        return dict(wire=cx.run.input_buf('wire', 'bytes'), expected_type=cx.run.input_int('expected_type'))

    def pre(self, cx, wire, expected_type):
        return isinstance(wire, View)

    @staticmethod
    def _fits(cx, wire):
        typ, tn, size, sn = _hdr(cx, wire)
        L = zint(wire.length)
        return And(L > 0, tn < L, tn + sn <= L)

    raises = {
        ValueError: lambda cx, wire, expected_type: And(parse_and_check_tl._fits(cx, wire),
                                                         _hdr(cx, wire)[0] != zint(expected_type)),
        IndexError: lambda cx, wire, expected_type: (lambda typ, tn, size, sn, L: Or(
            L == 0, tn == L,
            And(parse_and_check_tl._fits(cx, wire), typ == zint(expected_type), L != tn + sn + size)))(*_hdr(cx, wire), zint(wire.length)),
        struct.error: lambda cx, wire, expected_type: (lambda typ, tn, size, sn, L: Or(
            And(L > 0, tn > L), And(tn < L, tn + sn > L)))(*_hdr(cx, wire), zint(wire.length)),
    }

    def post(self, cx, result, wire, expected_type):
        typ, tn, size, sn = _hdr(cx, wire)
        ok = isinstance(result, View) and result.kind == 'memoryview'
        if not ok:
            return {'is_memoryview': False}
        return {'same_cell': Eq(result.cell, wire.cell),
                'starts_after_header': Eq(result.start, wire.start + tn + sn),
                'length_is_declared': Eq(result.length, size),
                'ends_at_wire_end': Eq(result.start + result.length, wire.start + wire.length),
                'type': typ == zint(expected_type)}

    def result(self, cx, wire, expected_type):
        cx.run.assume(bytes_in_range(cx.heap, wire, 0, 18))
        typ, tn, size, sn = _hdr(cx, wire)
        st, ln = cx.run.fresh_int('vstart'), cx.run.fresh_int('vlen')
        cx.run.assume(And(st == tn + sn, ln == size))
        return View(wire.cell, simp(wire.start + st), ln, 'memoryview', wire.writable)

    def build(self, i):
        return (bytes.fromhex(i['wire']['hex']), i['expected_type']), {}


@contract
class shrink_length(Contract):
    fn = tlv_var.shrink_length
    props = ('C01', 'C02', 'C16')
    doc = ('for a library-produced element (shortest-form T and L, exact length) and 0 < val <= L: the result is a '
           'well-formed element of the same type, length L - val, same leading value bytes, for every pair of length widths')

    def setup(self, cx):
        wire = cx.run.input_buf('wire', 'bytearray')
        cx.run.assume(bytes_in_range(cx.run.heap, wire, 0, 18))     # heap invariant: cells hold bytes (every write is checked)
        return dict(wire=wire, val=cx.run.input_int('val'))

    def pre(self, cx, wire, val):
        if not (isinstance(wire, View) and wire.writable):
            return False
        typ, tn, size, sn = _hdr(cx, wire)
        L = zint(wire.length)
        return {'nonempty': L >= 2, 'type_shortest': tn == tlsize(typ), 'length_shortest': sn == tlsize(size),
                'exact_length': L == tn + sn + size, 'shrink_positive': zint(val) > 0, 'shrink_within_value': zint(val) <= size}

    def post(self, cx, result, wire, val):
        typ, tn, size, sn = _hdr(cx, wire)
        rs = size - zint(val)
        h = cx.heap
        if not (isinstance(result, View) and result.kind == 'memoryview'):
            return {'is_memoryview': False}
        return {'same_cell': Eq(result.cell, wire.cell),
                'type_kept_shortest': tlenc_at(h, result, 0, typ),
                'length_rewritten_shortest': tlenc_at(h, result, tn, rs),
                'total_length_exact': Eq(result.length, tn + tlsize(rs) + rs),
                'value_starts_where_it_was': Eq(result.start + tn + tlsize(rs), wire.start + tn + sn),
                'value_bytes_untouched': cx.frame(wire, 0, tn + sn)}

    def result(self, cx, wire, val):
        typ, tn, size, sn = _hdr(cx, wire)
        rs = size - zint(val)
        d = cx.run.fresh_int('shrink_d')
        cx.run.assume(d == sn - tlsize(rs))
        cx.run.havoc_range(wire, 0, tn + sn, 'shrunk_hdr')
        cx.run.assume(bytes_in_range(cx.heap, wire, 0, 18))
        ln = cx.run.fresh_int('shrunk_len')
        cx.run.assume(ln == tn + tlsize(rs) + rs)
        return View(wire.cell, simp(wire.start + d), ln, 'memoryview', True)

    def post_assumed(self, cx, result, wire, val):
        typ, tn, size, sn = _hdr(cx, wire)
        rs = size - zint(val)
        return {'t': tlenc_at(cx.heap, result, 0, typ), 'l': tlenc_at(cx.heap, result, tn, rs)}

    def build(self, i):
        return (bytearray.fromhex(i['wire']['hex']), i['val']), {}
