"""Contracts for ndn/encoding/tlv_var.py (real functions, sidecar)."""
import struct
import z3
from ndn.encoding import tlv_var
from pyvc.zutil import *
from pyvc.contracts import Contract, contract, LoopSpec
from pyvc.run import View
from spec.tlv import *

P_CODEC = ('C01', 'C07', 'C08', 'C09', 'C10', 'C16')


@contract
class get_tl_num_size(Contract):
    fn = tlv_var.get_tl_num_size
    props = P_CODEC
    doc = 'result is the length of the shortest NDN var-number encoding of val'

    def setup(self, cx):
        return dict(val=cx.run.input_int('val'))

    def pre(self, cx, val):
        return And(val >= 0, val < M64)

    def post(self, cx, result, val):
        return {'shortest': Eq(result, tlsize(val))}

    def result(self, cx, val):
        return tlsize(val)

    def build(self, i):
        return (i['val'],), {}


@contract
class write_tl_num(Contract):
    fn = tlv_var.write_tl_num
    props = P_CODEC
    exact_raises = True
    doc = 'writes the shortest-form encoding of val at buf[offset:], returns its size, touches nothing else'

    def setup(self, cx):
        return dict(val=cx.run.input_int('val'), buf=cx.run.input_buf('buf', 'bytearray'), offset=cx.run.input_int('offset'))

    def pre(self, cx, val, buf, offset):
        return And(val >= 0, val < M64, zint(offset) >= 0, isinstance(buf, View) and buf.writable)

    raises = {struct.error: lambda cx, val, buf, offset: zint(offset) + tlsize(val) > zint(buf.length)}

    def post(self, cx, result, val, buf, offset):
        return {'size': Eq(result, tlsize(val)),
                'bytes': tlenc_at(cx.heap, buf, offset, val),
                'frame': cx.frame(buf, offset, offset + tlsize(val))}

    def result(self, cx, val, buf, offset):
        n = tlsize(val)
        cx.run.havoc_range(buf, offset, n, 'tl')
        cx.run.assume(bytes_in_range(cx.heap, buf, offset, 9))
        return n

    def post_assumed(self, cx, result, val, buf, offset):
        return {'bytes': tlenc_at(cx.heap, buf, offset, val)}

    def build(self, i):
        return (i['val'], bytearray.fromhex(i['buf']['hex']), i['offset']), {}


@contract
class parse_tl_num(Contract):
    fn = tlv_var.parse_tl_num
    props = P_CODEC
    exact_raises = True
    doc = 'reads the var-number at buf[offset:]: (value, bytes consumed); IndexError / struct.error exactly when it does not fit'

    def setup(self, cx):
        return dict(buf=cx.run.input_buf('buf', 'bytes'), offset=cx.run.input_int('offset'))

    def pre(self, cx, buf, offset):
        return And(isinstance(buf, View), zint(offset) >= 0)

    raises = {
        IndexError: lambda cx, buf, offset: zint(offset) >= zint(buf.length),
        struct.error: lambda cx, buf, offset: And(zint(offset) < zint(buf.length),
                                                  zint(offset) + need_at(cx.heap, buf, offset) > zint(buf.length)),
    }

    def post(self, cx, result, buf, offset):
        v, n = result
        return {'size': Eq(n, need_at(cx.old_heap, buf, offset)),
                'value': Eq(v, tlval_at(cx.old_heap, buf, offset)),
                'range': And(zint(v) >= 0, zint(v) < M64)}

    def result(self, cx, buf, offset):
        h = cx.heap
        cx.run.assume(bytes_in_range(h, buf, offset, 9))
        v, n = cx.run.fresh_int('tlv'), cx.run.fresh_int('tln')
        cx.run.assume(And(v == tlval_at(h, buf, offset), n == need_at(h, buf, offset)))
        return (v, n)

    def build(self, i):
        return (bytes.fromhex(i['buf']['hex']), i['offset']), {}
