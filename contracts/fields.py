"""Contracts for the Field classes of ndn/encoding/tlv_model.py.

Interface (property C08, statement "size equals the size announced beforehand ... shortest form ... smallest
legal width"):  for a field F with value v and a markers dict,
   n = F.encoded_length(v, markers)             announces n
   m = F.encode_into(v, markers, wire, offset)  writes exactly wire[offset:offset+m], m == n, as
                                                tlenc(type) ++ tlenc(len) ++ value, touches nothing else
   F.parse_from(.., wire, off, length, off_btl) returns the value stored in wire[off:off+length]
"""
import struct
import z3
from ndn.encoding import tlv_model as tm
from pyvc.zutil import *
from pyvc.contracts import Contract, contract, LoopSpec
from pyvc.run import View, Unsupported
from pyvc.values import SymObj, SymStr
from pyvc.symseq import BufSeq
from spec.tlv import *

P = ('C08', 'C01', 'C07')


def A(obj, name):
    """attribute of a field object (real instance or SymObj)"""
    if isinstance(obj, SymObj):
        return obj.d[name]
    return getattr(obj, name)


def mk_field(cx, cls, **attrs):
    """symbolic instance of a Field class; `name` is a fixed placeholder (keys f'{name}##x' are injective in name)"""
    d = dict(name='F', default=None)
    if 'type_num' not in attrs:
        t = cx.run.input_int('type_num')
        cx.run.assume(And(t >= 0, t < 2 ** 32))
        d['type_num'] = t
    d.update(attrs)
    return SymObj(cls, d, label='field')


def key(self_, suffix):
    return f'{A(self_, "name")}##{suffix}'


def val_cases(cx, kinds):
    """case split on the shape of a field value"""
    k = cx.run.choose([(x, True) for x in kinds], 'val')
    cx.run.input_const('val_kind', k)
    if k == 'None':
        return k, None
    if k == 'int':
        return k, cx.run.input_int('val')
    if k == 'bytes':
        v = cx.run.input_buf('val', 'bytes')
        cx.run.assume(zint(v.length) < M64)
        return k, v
    if k == 'str':
        n, u = cx.run.input_int('val_chars'), cx.run.fresh_int('val_utf8len')
        ub = cx.run.alloc(u, 'bytes', cx.run.fresh_row('utf8'), False)
        cx.run.inputs.append(('val_utf8', 'buf', (ub, cx.run.heap)))
        cx.run.assume(And(n >= 0, u >= n, u <= 4 * n, u < M64))      # utf-8: 1..4 bytes per character
        return k, SymStr('val', n, (ub, cx.run.heap))
    if k == 'text':                       # a python str that is not an int / bytes: used for type errors
        return k, 'text'
    if k == 'True':
        return k, True
    if k == 'False':
        return k, False
    raise ValueError(k)


def is_int(v):
    return (isinstance(v, int) and not isinstance(v, bool)) or is_symint(v) or isinstance(v, bool)


def concrete_val(i):
    k = i.get('val_kind')
    if k == 'None':
        return None
    if k == 'int':
        return i['val']
    if k == 'bytes':
        return bytes.fromhex(i['val']['hex'])
    if k == 'str':
        try:
            return bytes.fromhex(i['val_utf8']['hex']).decode('utf-8')
        except Exception:      # noqa   (the model's bytes need not be valid utf-8: use a text of the same shape)
            n, u = i['val_chars'], len(i['val_utf8']['hex']) // 2
            extra = u - n
            return '\u00e9' * min(extra, n) + 'a' * max(0, n - extra)
    if k == 'text':
        return 'text'
    return {'True': True, 'False': False}[k]


# ----------------------------------------------------------------------------- UintField
def uint_w(self_, val):
    fl = A(self_, 'fixed_len')
    return fl if fl is not None else uint_width(zint(val))


class _UintBase(Contract):
    props = P

    def mk_self(self, cx):
        fl = cx.run.choose([(x, True) for x in (None, 1, 2, 4, 8)], 'fixed_len')
        cx.run.input_const('fixed_len', fl)
        return mk_field(cx, tm.UintField, fixed_len=fl, val_base_type=int)

    @staticmethod
    def real_field(i):
        f = tm.UintField(i['type_num'], fixed_len=i['fixed_len'])
        f.name = 'F'
        return f

    def build(self, i):
        f = self.real_field(i)
        name = self.fn.__name__
        if name == 'encoded_length':
            return (f, concrete_val(i), {}), {}
        if name == 'encode_into':
            m = {}
            v = concrete_val(i)
            f.encoded_length(v, m)
            return (f, v, m, memoryview(bytearray.fromhex(i['wire']['hex'])), i['offset']), {}
        return (f, None, {}, bytes.fromhex(i['wire']['hex']), i['offset'], i['length'], i['offset_btl']), {}


@contract
class uint_encoded_length(_UintBase):
    fn = tm.UintField.encoded_length
    exact_raises = True
    doc = 'UintField announces tlsize(T) + 1 + W, W = fixed_len or the smallest of 1/2/4/8 holding val'

    def setup(self, cx):
        self_ = self.mk_self(cx)
        k, val = val_cases(cx, ['None', 'int', 'text'])
        return dict(self=self_, val=val, markers={})

    def pre(c, cx, self, val, markers):
        return And(zint(A(self, 'type_num')) >= 0, zint(A(self, 'type_num')) < M64)

    raises = {
        TypeError: lambda cx, self, val, markers: False if val is None else (True if not is_int(val) else zint(val) < 0),
        ValueError: lambda cx, self, val, markers: False if (val is None or not is_int(val)) else
        And(zint(val) >= 0, Or(*[And(uint_w(self, val) == w, zint(val) >= 256 ** w) for w in (1, 2, 4, 8)])),
    }

    def post(c, cx, result, self, val, markers):
        if val is None:
            return {'absent_is_zero': Eq(result, 0)}
        w = uint_w(self, val)
        return {'announced': Eq(result, tlsize(A(self, 'type_num')) + 1 + w),
                'marker': Eq(markers.get(key(self, 'encoded_length'), -1), w),
                'legal_width': Or(*[And(w == k, zint(val) < 256 ** k) for k in (1, 2, 4, 8)])}

    def result(c, cx, self, val, markers):
        if val is None:
            return 0
        w = cx.run.fresh_int('uw')
        cx.run.assume(w == uint_w(self, val))
        w = simp(w)
        markers[key(self, 'encoded_length')] = w
        return simp(tlsize(A(self, 'type_num')) + 1 + w)


@contract
class uint_encode_into(_UintBase):
    fn = tm.UintField.encode_into
    exact_raises = True
    doc = 'UintField writes tlenc(T) 0W be(val, W); returns the announced size; frame'

    def setup(self, cx):
        self_ = self.mk_self(cx)
        k, val = val_cases(cx, ['None', 'int'])
        markers = {}
        if val is not None:
            w = cx.run.fresh_int('w')
            cx.run.assume(w == uint_w(self_, val))
            markers[key(self_, 'encoded_length')] = simp(w)
        return dict(self=self_, val=val, markers=markers, wire=cx.run.input_buf('wire', 'memoryview', True),
                    offset=cx.run.input_int('offset'))

    def pre(c, cx, self, val, markers, wire, offset):
        ok = And(zint(offset) >= 0, isinstance(wire, View) and wire.writable, zint(A(self, 'type_num')) >= 0,
                 zint(A(self, 'type_num')) < M64)
        if val is None:
            return ok
        if not is_int(val) or key(self, 'encoded_length') not in markers:
            return False
        w = markers[key(self, 'encoded_length')]
        return And(ok, zint(val) >= 0, Eq(w, uint_w(self, val)),
                   Or(*[And(zint(w) == k, zint(val) < 256 ** k) for k in (1, 2, 4, 8)]))

    raises = {struct.error: lambda cx, self, val, markers, wire, offset: False if val is None else
              zint(offset) + tlsize(A(self, 'type_num')) + 1 + zint(markers[key(self, 'encoded_length')]) > zint(wire.length)}

    def post(c, cx, result, self, val, markers, wire, offset):
        if val is None:
            return {'absent_is_zero': Eq(result, 0), 'frame': cx.frame(wire, offset, offset)}
        h = cx.heap
        t = A(self, 'type_num')
        w, hdr = zint(markers[key(self, 'encoded_length')]), tlsize(t)
        return {'as_announced': Eq(result, hdr + 1 + w),
                'type_shortest': tlenc_at(h, wire, offset, t),
                'length_byte': wire.at(h, zint(offset) + hdr) == w,
                'value_big_endian': Or(*[And(w == k, be(h, wire, zint(offset) + hdr + 1, k) == zint(val)) for k in (1, 2, 4, 8)]),
                'frame': cx.frame(wire, offset, zint(offset) + hdr + 1 + w)}

    def result(c, cx, self, val, markers, wire, offset):
        if val is None:
            return 0
        t = A(self, 'type_num')
        w, hdr = zint(markers[key(self, 'encoded_length')]), tlsize(t)
        cx.run.havoc_range(wire, offset, hdr + 1 + w, 'uintfield')
        cx.run.assume(bytes_in_range(cx.heap, wire, offset, 18))
        return simp(hdr + 1 + w)

    def post_assumed(c, cx, result, self, val, markers, wire, offset):
        d = c.post(cx, result, self, val, markers, wire, offset)
        d.pop('frame', None)
        return d


@contract
class uint_parse_from(_UintBase):
    fn = tm.UintField.parse_from
    exact_raises = True
    doc = 'UintField accepts exactly the widths 1, 2, 4, 8 and returns the big-endian value'

    def setup(self, cx):
        return dict(self=self.mk_self(cx), instance=None, markers={}, wire=cx.run.input_buf('wire', 'bytes'),
                    offset=cx.run.input_int('offset'), length=cx.run.input_int('length'), offset_btl=cx.run.input_int('offset_btl'))

    def pre(c, cx, self, instance, markers, wire, offset, length, offset_btl):
        return And(zint(offset) >= 0, isinstance(wire, View))

    raises = {
        ValueError: lambda cx, self, instance, markers, wire, offset, length, offset_btl:
        And(*[zint(length) != k for k in (1, 2, 4, 8)]),
        struct.error: lambda cx, self, instance, markers, wire, offset, length, offset_btl:
        And(Or(*[zint(length) == k for k in (1, 2, 4, 8)]), zint(offset) + zint(length) > zint(wire.length)),
    }

    def post(c, cx, result, self, instance, markers, wire, offset, length, offset_btl):
        h = cx.old_heap
        return {'value': Or(*[And(zint(length) == k, zint(result) == be(h, wire, offset, k)) for k in (1, 2, 4, 8)]),
                'range': And(zint(result) >= 0, zint(result) < M64)}

    def result(c, cx, self, instance, markers, wire, offset, length, offset_btl):
        cx.run.assume(bytes_in_range(cx.heap, wire, offset, 8))
        return cx.run.fresh_int('uintval')


# ----------------------------------------------------------------------------- BoolField
@contract
class bool_encoded_length(Contract):
    fn = tm.BoolField.encoded_length
    props = P
    doc = 'BoolField: present (length 0) iff the value is truthy'

    def setup(self, cx):
        k, val = val_cases(cx, ['None', 'True', 'False'])
        return dict(self=mk_field(cx, tm.BoolField), val=val, markers={})

    def pre(c, cx, self, val, markers):
        return And(zint(A(self, 'type_num')) >= 0, zint(A(self, 'type_num')) < M64)

    def post(c, cx, result, self, val, markers):
        return {'announced': Eq(result, If(cx.it.truth(val), tlsize(A(self, 'type_num')) + 1, 0))}

    def result(c, cx, self, val, markers):
        return simp(If(cx.it.truth(val), tlsize(A(self, 'type_num')) + 1, 0))


@contract
class bool_encode_into(Contract):
    fn = tm.BoolField.encode_into
    props = P
    exact_raises = True
    doc = 'BoolField writes tlenc(T) 00'

    def setup(self, cx):
        k, val = val_cases(cx, ['None', 'True', 'False'])
        return dict(self=mk_field(cx, tm.BoolField), val=val, markers={}, wire=cx.run.input_buf('wire', 'memoryview', True),
                    offset=cx.run.input_int('offset'))

    def pre(c, cx, self, val, markers, wire, offset):
        return And(zint(offset) >= 0, isinstance(wire, View) and wire.writable, zint(A(self, 'type_num')) >= 0,
                   zint(A(self, 'type_num')) < M64)

    raises = {struct.error: lambda cx, self, val, markers, wire, offset:
              And(cx.it.truth(val), zint(offset) + tlsize(A(self, 'type_num')) > zint(wire.length)),
              IndexError: lambda cx, self, val, markers, wire, offset:
              And(cx.it.truth(val), zint(offset) + tlsize(A(self, 'type_num')) == zint(wire.length))}

    def post(c, cx, result, self, val, markers, wire, offset):
        t = A(self, 'type_num')
        if not cx.it.truth(val):
            return {'absent_is_zero': Eq(result, 0), 'frame': cx.frame(wire, offset, offset)}
        return {'as_announced': Eq(result, tlsize(t) + 1), 'type_shortest': tlenc_at(cx.heap, wire, offset, t),
                'length_zero': wire.at(cx.heap, zint(offset) + tlsize(t)) == 0,
                'frame': cx.frame(wire, offset, zint(offset) + tlsize(t) + 1)}

    def result(c, cx, self, val, markers, wire, offset):
        if not cx.run.branch(cx.it.truth(val), 'boolean field present'):
            return 0
        n = tlsize(A(self, 'type_num')) + 1
        cx.run.havoc_range(wire, offset, n, 'boolfield')
        cx.run.assume(bytes_in_range(cx.heap, wire, offset, 10))
        return simp(n)

    def post_assumed(c, cx, result, self, val, markers, wire, offset):
        t = A(self, 'type_num')
        present = cx.it.truth(val)
        return {'t': Implies(present, And(tlenc_at(cx.heap, wire, offset, t), wire.at(cx.heap, zint(offset) + tlsize(t)) == 0))}


# ----------------------------------------------------------------------------- BytesField
def bytes_len(val):
    """the number of bytes a BytesField value occupies on the wire (text: its utf-8 length)"""
    if isinstance(val, SymStr):
        return val.utf8[0].length
    if isinstance(val, str):
        return len(val.encode('utf-8'))
    return val.length


def bytes_payload(val):
    if isinstance(val, SymStr):
        return val.utf8
    return (val, None)


@contract
class bytes_encoded_length(Contract):
    fn = tm.BytesField.encoded_length
    props = P
    doc = 'BytesField announces tlsize(T) + tlsize(n) + n where n is the number of bytes written (utf-8 length for text)'

    def setup(self, cx):
        k, val = val_cases(cx, ['None', 'bytes', 'str'])
        return dict(self=mk_field(cx, tm.BytesField, is_string=(k == 'str')), val=val, markers={})

    def pre(c, cx, self, val, markers):
        return And(zint(A(self, 'type_num')) >= 0, zint(A(self, 'type_num')) < M64)

    def post(c, cx, result, self, val, markers):
        if val is None:
            return {'absent_is_zero': Eq(result, 0)}
        n = zint(bytes_len(val))
        return {'announced': Eq(result, tlsize(A(self, 'type_num')) + tlsize(n) + n)}

    def result(c, cx, self, val, markers):
        if val is None:
            return 0
        n = zint(bytes_len(val))
        return simp(tlsize(A(self, 'type_num')) + tlsize(n) + n)


@contract
class bytes_encode_into(Contract):
    fn = tm.BytesField.encode_into
    props = P
    doc = 'BytesField writes tlenc(T) tlenc(n) and the n value bytes; returns the announced size; frame'

    def setup(self, cx):
        k, val = val_cases(cx, ['None', 'bytes', 'str'])
        return dict(self=mk_field(cx, tm.BytesField, is_string=(k == 'str')), val=val, markers={},
                    wire=cx.run.input_buf('wire', 'memoryview', True), offset=cx.run.input_int('offset'))

    def pre(c, cx, self, val, markers, wire, offset):
        return And(zint(offset) >= 0, isinstance(wire, View) and wire.writable, zint(A(self, 'type_num')) >= 0,
                   zint(A(self, 'type_num')) < M64)

    @staticmethod
    def _total(self_, val):
        n = zint(bytes_len(val))
        return tlsize(A(self_, 'type_num')) + tlsize(n) + n

    raises = {struct.error: lambda cx, self, val, markers, wire, offset: False if val is None else
              zint(offset) + tlsize(A(self, 'type_num')) + tlsize(bytes_len(val)) > zint(wire.length),
              ValueError: lambda cx, self, val, markers, wire, offset: False if val is None else
              And(zint(offset) + tlsize(A(self, 'type_num')) + tlsize(bytes_len(val)) <= zint(wire.length),
                  zint(offset) + bytes_encode_into._total(self, val) > zint(wire.length))}
    exact_raises = True

    def post(c, cx, result, self, val, markers, wire, offset):
        if val is None:
            return {'absent_is_zero': Eq(result, 0), 'frame': cx.frame(wire, offset, offset)}
        h = cx.heap
        t = A(self, 'type_num')
        n = zint(bytes_len(val))
        src, sh = bytes_payload(val)
        from contracts.name import bytes_equal
        return {'as_announced': Eq(result, tlsize(t) + tlsize(n) + n),
                'type_shortest': tlenc_at(h, wire, offset, t),
                'length_shortest': tlenc_at(h, wire, zint(offset) + tlsize(t), n),
                'value': bytes_equal(h, wire, zint(offset) + tlsize(t) + tlsize(n), sh if sh is not None else cx.old_heap, src, 0, n),
                'frame': cx.frame(wire, offset, zint(offset) + tlsize(t) + tlsize(n) + n)}

    def result(c, cx, self, val, markers, wire, offset):
        if val is None:
            return 0
        t = A(self, 'type_num')
        n = zint(bytes_len(val))
        src, sh = bytes_payload(val)
        hdr = simp(tlsize(t) + tlsize(n))
        cx.run.havoc_range(wire, offset, hdr, 'bytesfield')
        cx.run.copy_into(wire, simp(zint(offset) + hdr), src, n, sh)
        cx.run.assume(bytes_in_range(cx.heap, wire, offset, 18))
        return simp(hdr + n)

    def post_assumed(c, cx, result, self, val, markers, wire, offset):
        if val is None:
            return {}
        t = A(self, 'type_num')
        return {'t': tlenc_at(cx.heap, wire, offset, t),
                'l': tlenc_at(cx.heap, wire, zint(offset) + tlsize(t), bytes_len(val))}


@contract
class bytes_parse_from(Contract):
    fn = tm.BytesField.parse_from
    props = P
    doc = 'BytesField returns the view wire[offset:offset+length] (text: its utf-8 decoding)'

    def setup(self, cx):
        s = cx.run.choose([(False, True), (True, True)], 'is_string')
        return dict(self=mk_field(cx, tm.BytesField, is_string=s), instance=None, markers={}, wire=cx.run.input_buf('wire', 'bytes'),
                    offset=cx.run.input_int('offset'), length=cx.run.input_int('length'), offset_btl=cx.run.input_int('offset_btl'))

    def pre(c, cx, self, instance, markers, wire, offset, length, offset_btl):
        # containment is the caller's obligation (TlvModel.parse): every nested element lies inside its parent
        return And(zint(offset) >= 0, zint(length) >= 0, zint(offset) + zint(length) <= zint(wire.length), isinstance(wire, View))

    raises = {UnicodeDecodeError: lambda cx, self, instance, markers, wire, offset, length, offset_btl: A(self, 'is_string') is True}

    def post(c, cx, result, self, instance, markers, wire, offset, length, offset_btl):
        if A(self, 'is_string'):
            if not isinstance(result, SymStr):
                return {'is_text': False}
            v = result.utf8[0]
        else:
            if not (isinstance(result, View) and result.kind == 'memoryview'):
                return {'is_memoryview': False}
            v = result
        out = {'start': Eq(v.start, wire.start + offset), 'length': Eq(v.length, length)}
        if not A(self, 'is_string'):
            out['same_cell'] = Eq(v.cell, wire.cell)
        return out

    def result(c, cx, self, instance, markers, wire, offset, length, offset_btl):
        v = View(wire.cell, simp(wire.start + offset), length, 'memoryview', wire.writable)
        if A(self, 'is_string'):
            b = cx.run.alloc(length, 'bytes', v.row(cx.heap), False)
            b.start = v.start
            return SymStr(cx.run.fresh_name('text'), None, (b, cx.heap))
        return v


# ----------------------------------------------------------------------------- ProcedureArgument / OffsetMarker
@contract
class offsetmarker_encode_into(Contract):
    fn = tm.OffsetMarker.encode_into
    props = P + ('C02',)
    doc = 'OffsetMarker records the offset it is encoded at and occupies no bytes'

    def setup(self, cx):
        return dict(self=mk_field(cx, tm.OffsetMarker, type_num=-1), val=None, markers={},
                    wire=cx.run.input_buf('wire', 'memoryview', True), offset=cx.run.input_int('offset'))

    def post(c, cx, result, self, val, markers, wire, offset):
        return {'zero': Eq(result, 0), 'recorded': Eq(markers.get(key(self, 'args'), -1), offset),
                'frame': cx.unchanged_cell(wire)}

    def result(c, cx, self, val, markers, wire, offset):
        markers[key(self, 'args')] = offset
        return 0

    def post_assumed(c, cx, result, self, val, markers, wire, offset):
        return {}


@contract
class offsetmarker_skipping_process(Contract):
    fn = tm.OffsetMarker.skipping_process
    props = P + ('C02',)
    doc = 'OffsetMarker records the offset where it would have been when a later field is found'

    def setup(self, cx):
        return dict(self=mk_field(cx, tm.OffsetMarker, type_num=-1), markers={}, wire=cx.run.input_buf('wire', 'bytes'),
                    offset=cx.run.input_int('offset'))

    def post(c, cx, result, self, markers, wire, offset):
        return {'recorded': Eq(markers.get(key(self, 'args'), -1), offset)}

    def result(c, cx, self, markers, wire, offset):
        markers[key(self, 'args')] = offset
        return None
