"""Call-site summary of TlvModel.parse for the SHIPPED model classes (used when parse_interest / parse_data /
parse_lp_packet_v2 / _receive are verified).  Justified by the generic proof of TlvModel.parse (contracts/model.py)
plus the per-field parse_from contracts: the returned instance has, for every field of the class (read from the live
class), either no value (-> declared default) or a value of the shape that field's parse_from produces, all byte
strings being views INTO the parsed wire.  Presence is decided lazily (a path forks only when a field is read).
Repeated fields are summarised with 0 or 2 elements (stated approximation).  Raises: the documented decoding errors."""
import struct
import z3
from ndn.encoding import tlv_model as tm
from ndn.encoding import ndn_format_0_3 as nf
from pyvc.zutil import *
from pyvc.run import View, Unsupported
from pyvc.values import SymObj, SymStr, PyExc, BoundMethod, OptInt
from pyvc.symseq import BufSeq
from spec.tlv import M64

PARSE_RAISES = (tm.DecodeError, IndexError, ValueError, struct.error)


def sub_view(run, wire, label):
    """some view inside wire"""
    st, ln = run.fresh_int(label + '_st'), run.fresh_int(label + '_len')
    run.assume(z3.And(st >= 0, ln >= 0, st + ln <= zint(wire.length)))
    return View(wire.cell, simp(zint(wire.start) + st), ln, 'memoryview', wire.writable)


class LazyParsed:
    """instance of model class `cls` returned by cls.parse(wire)"""

    def __init__(self, run, cls, wire, markers, label=''):
        self.run, self.cls, self.wire, self.markers, self.label = run, cls, wire, markers, label or cls.__name__
        self.cache = {}
        self.fields = {f.name: f for f in cls._encoded_fields}

    def isinstance_(self, t):
        try:
            return issubclass(self.cls, t)
        except TypeError:
            return False

    def truth(self, it):
        return True

    def present(self, name):
        if name not in self.cache:
            f = self.fields[name]
            k = self.run.choose([('absent', True), ('present', True)], f'{self.label}.{name}')
            self.cache[name] = self.value_of(f) if k == 'present' else _ABSENT
        return self.cache[name] is not _ABSENT

    def value_of(self, f):
        run, w = self.run, self.wire
        if isinstance(f, tm.UintField):
            v = run.fresh_int(f.name)
            run.assume(z3.And(v >= 0, v < M64))
            return v
        if isinstance(f, tm.BoolField):
            return True
        if isinstance(f, tm.BytesField):
            v = sub_view(run, w, f.name)
            if f.is_string:
                return SymStr(run.fresh_name(f.name), None, (v, run.heap))
            return v
        if isinstance(f, (tm.NameField, tm.InterestNameField)):
            return BufSeq.fresh(run, f.name, 'memoryview')
        if isinstance(f, tm.SignatureValueField):
            return sub_view(run, w, f.name)
        if isinstance(f, tm.ModelField):
            return LazyParsed(run, f.model_type, sub_view(run, w, f.name), {}, f'{self.label}.{f.name}')
        if isinstance(f, tm.RepeatedField):
            k = run.choose([('0 elements', True), ('2 elements', True)], f'{self.label}.{f.name}#')
            n = 0 if k == '0 elements' else 2
            e = f.element_type
            out = []
            for j in range(n):
                e2 = type('E', (), {})()
                out.append(self.value_of(_Renamed(e, f'{f.name}[{j}]')))
            return out
        raise Unsupported(f'parse summary for field kind {type(f).__name__}')

    def getattr_(self, it, name, node):
        if name in self.fields:
            f = self.fields[name]
            if isinstance(f, tm.ProcedureArgument):
                return f
            if isinstance(f, tm.RepeatedField):
                if not self.present(name):
                    self.cache[name] = []
                return self.cache[name]
            if isinstance(f, tm.UintField) and f.default is None and f.val_base_type is int:
                if name not in self.cache:         # optional integer: presence stays symbolic (no fork)
                    v = self.run.fresh_int(name)
                    self.run.assume(z3.And(v >= 0, v < M64))
                    self.cache[name] = OptInt(self.run.fresh_bool(name + '_absent'), v)
                return self.cache[name]
            if isinstance(f, tm.BoolField) and f.default is False:
                if name not in self.cache:         # absent -> False, present -> True: one symbolic boolean, no fork
                    self.cache[name] = self.run.fresh_bool(name)
                return self.cache[name]
            if not self.present(name):
                d = f.default
                if isinstance(f, tm.UintField) and d is not None:
                    return f.val_base_type(d)
                return d
            v = self.cache[name]
            if isinstance(f, tm.UintField) and f.val_base_type is not int:
                from pyvc.values import Opaque
                return Opaque('enum', f.val_base_type.__name__, {'__isinstance__': lambda t, _c=f.val_base_type: issubclass(_c, t) if isinstance(t, type) else False})
            return v
        if name == '__dict__':
            return _ParsedDict(self)
        if name == '_encoded_fields':
            return self.cls._encoded_fields
        a = getattr(self.cls, name, None)
        if a is not None and callable(a):
            import types as _t
            if isinstance(a, _t.FunctionType):
                return BoundMethod(a, self)
        raise Unsupported(f'attribute {name} of parsed {self.cls.__name__}')

    def setattr_(self, it, name, val, node):
        self.cache[name] = val


class _ParsedDict:
    """instance.__dict__ of a parsed model: a field name is a key iff the element was present in the wire"""

    def __init__(self, inst):
        self.inst = inst

    def contains(self, it, item, node):
        if item in self.inst.fields and not isinstance(self.inst.fields[item], tm.ProcedureArgument):
            f = self.inst.fields[item]
            v = self.inst.getattr_(it, item, node)
            from pyvc.values import OptInt
            if isinstance(v, OptInt):
                return Not(v.isnone)
            if isinstance(f, tm.BoolField) and f.default is False:
                return v
            if isinstance(f, tm.RepeatedField):
                return len(v) > 0
            return self.inst.present(item)
        raise Unsupported(f'__dict__ membership of {item!r}')


class _Renamed:
    """element field of a RepeatedField seen under another name"""

    def __init__(self, f, name):
        self.__dict__.update(f.__dict__)
        self.__class__ = type(f)
        self.name = name


_ABSENT = object()


def parse_model(it, cls, wire, markers, node=None, ignore_critical=False):
    """summary of cls.parse(wire, markers): may raise a documented decoding error, else a LazyParsed instance;
    marker side effects of the shipped packet classes are reproduced symbolically"""
    run = it.run
    # under which critical-bit rule the caller asked for this (top-level) parse: the contracts of the packet decoders oblige it
    run.ghost.setdefault('parse.rule', []).append((cls, ignore_critical))
    ov = run.ghost.get('parse_override', {}).get(cls)
    tag = run.choose([('normal', True)] + [(e, True) for e in PARSE_RAISES], f'{cls.__name__}.parse')
    if tag != 'normal':
        raise PyExc(tag, (f'{cls.__name__}.parse (summary)',), getattr(node, 'lineno', None), it.where())
    if ov is not None:
        return ov(it, wire, markers)
    inst = LazyParsed(run, cls, wire, markers)
    if cls in (nf.InterestPacketValue, nf.DataPacketValue):
        cov = []
        k = run.choose([('no signature value', True), ('signature value', True)], 'covered')
        if k == 'signature value':
            cov.append(sub_view(run, wire, 'covered'))
        markers['_sig_cover_part##args'] = cov
    if cls is nf.InterestPacketValue:
        markers['_digest_cover_part##args'] = [sub_view(run, wire, 'digest_covered')]
        k = run.choose([('no digest component', True), ('digest component', True)], 'digestbuf')
        if k == 'digest component':
            markers['_digest_buf##args'] = sub_view(run, wire, 'digest_value')
    return inst
