"""Contracts for the generic TlvModel drivers (encoded_length / encode / parse), proved ONCE against the
abstract Field interface for a model class with an arbitrary field list (any number of fields, any type numbers,
plain / repeated / map kinds).  Concrete Field subclasses are tied to the interface by their own contracts
(contracts/fields.py) and the subtyping lemmas (lemmas/fields.py)."""
import struct
import z3
from ndn.encoding import tlv_model as tm
from pyvc.zutil import *
from pyvc.contracts import Contract, contract, LoopSpec
from pyvc.run import View, Unsupported
from pyvc.values import SymObj, Opaque, PyExc
from pyvc.symseq import PS, SymRange
from spec.tlv import *

KIND_PLAIN, KIND_REPEATED, KIND_MAP = 0, 1, 2
PARSE_RAISES = (tm.DecodeError, IndexError, ValueError, struct.error, UnicodeDecodeError)
ENCODE_RAISES = (struct.error, IndexError, ValueError, TypeError)


class _M:
    def __init__(self, f):
        self.f = f

    def call_(self, it, args, kwargs, node):
        return self.f(it, *args, **kwargs)


class AbsFields:
    """the field list of an arbitrary model class"""

    def __init__(self, run):
        self.run = run
        self.n = run.fresh_int('nfields')
        self.types = run.fresh_row('ftypes')
        self.kinds = run.fresh_row('fkinds')
        self.flen = run.fresh_row('flen')          # ghost: the size field j announces for the instance being encoded
        run.assume(self.n >= 0)

    def len_(self, it, node):
        return self.n

    def seq_len(self):
        return self.n

    def elem(self, it, i):
        return AbsField(self, simp(zint(i)))

    def getitem(self, it, idx, node):
        i = zint(idx)
        if not it.run.branch(z3.And(i >= -self.n, i < self.n), 'fields.index_ok'):
            it.raise_(IndexError, 'list index out of range', node=node)
        if it.run.branch(i < 0, 'fields.negidx'):
            i = i + self.n
        return AbsField(self, simp(i))

    def iterate(self, it, node):
        raise Unsupported('iteration over an abstract field list needs a loop specification')

    def psum(self, k):
        k = zint(k)
        a, r = self.flen, self.run
        r.assume(PS(a, z3.IntVal(0)) == 0)
        r.assume(z3.Implies(z3.And(k >= 0, k <= self.n), z3.And(PS(a, k) >= 0, PS(a, k) <= PS(a, self.n))))
        r.assume(z3.Implies(k >= 0, z3.And(z3.Select(a, k) >= 0, PS(a, k + 1) == PS(a, k) + z3.Select(a, k))))
        r.assume(z3.Implies(z3.And(k >= 0, k + 1 <= self.n), PS(a, k + 1) <= PS(a, self.n)))
        return PS(a, simp(k))


class AbsField:
    """field number i of the abstract class: known only through the Field interface"""

    def __init__(self, seq, i):
        self.seq, self.i = seq, i

    def isinstance_(self, t):
        run = self.seq.run
        k = z3.Select(self.seq.kinds, zint(self.i))
        if t is tm.RepeatedField:
            return run.branch(k == KIND_REPEATED, 'isRepeated')
        if t is tm.MapField:
            return run.branch(k == KIND_MAP, 'isMap')
        if t is tm.Field:
            return True
        raise Unsupported(f'isinstance(abstract field, {t})')

    def getattr_(self, it, name, node):
        run, seq, i = it.run, self.seq, zint(self.i)
        if name == 'type_num':
            return z3.Select(seq.types, i)
        if name == 'name':
            return f'<field>'
        if name == 'get_value':
            return _M(lambda it_, inst: Opaque('fieldvalue', f'value of field'))
        if name == 'encoded_length':
            def f(it_, val, markers):
                tag = run.choose([('normal', True), (TypeError, True), (ValueError, True)], 'iface.encoded_length')
                if tag != 'normal':
                    raise PyExc(tag, ('Field.encoded_length (interface)',), getattr(node, 'lineno', None), it_.where())
                r = run.fresh_int('announced')
                run.assume(z3.And(r == z3.Select(seq.flen, i), r >= 0))
                return r
            return _M(f)
        if name == 'encode_into':
            def f(it_, val, markers, wire, offset):
                run.oblige(f'{it_.where()}#call[Field.encode_into].pre:offset_nonneg', zint(offset) >= 0)
                tag = run.choose([('normal', True)] + [(e, True) for e in ENCODE_RAISES], 'iface.encode_into')
                if tag != 'normal':
                    raise PyExc(tag, ('Field.encode_into (interface)',), getattr(node, 'lineno', None), it_.where())
                ln = z3.Select(seq.flen, i)
                run.assume(z3.And(ln >= 0, zint(offset) + ln <= zint(wire.length)))   # python never writes outside a buffer
                run.havoc_range(wire, offset, ln, 'fieldbytes')
                return ln
            return _M(f)
        if name in ('parse_from', 'parse_value'):
            def f(it_, instance, markers, wire, offset, length, offset_btl):
                site = f'{it_.where()}#call[Field.{name}@L{getattr(node, "lineno", 0)}].pre'
                run.oblige(f'{site}:element_inside_parent',
                           And(zint(length) >= 0, zint(offset) >= 0, zint(offset) + zint(length) <= zint(wire.length)),
                           regions={'declared_length_overruns_parent': And(zint(length) >= 0, zint(offset) >= 0,
                                                                           zint(offset) <= zint(wire.length),
                                                                           zint(offset) + zint(length) > zint(wire.length))})
                run.oblige(f'{site}:offset_btl', And(zint(offset_btl) >= 0, zint(offset_btl) < zint(offset)))
                tag = run.choose([('normal', True)] + [(e, True) for e in PARSE_RAISES], f'iface.{name}')
                if tag != 'normal':
                    raise PyExc(tag, (f'Field.{name} (interface)',), getattr(node, 'lineno', None), it_.where())
                return Opaque('fieldvalue', 'parsed')
            return _M(f)
        if name == 'skipping_process':
            def f(it_, markers, wire, offset):
                run.oblige(f'{it_.where()}#call[Field.skipping_process].pre:offset_in_wire',
                           And(zint(offset) >= 0, zint(offset) <= zint(wire.length)))
                head = run.ghost.get('parse.head_offset')
                if head is not None:
                    # a skipped field (an OffsetMarker records it) is told where the element that was found STARTS:
                    # the signed / digest-covered ranges begin there, not at the end of the last recognised element
                    run.oblige(f'{it_.where()}#call[Field.skipping_process].pre:told_the_start_of_the_found_element',
                               Eq(zint(offset), zint(head)))
                return None
            return _M(f)
        if name == '__set__':
            return _M(lambda it_, inst, val: None)
        raise Unsupported(f'abstract field attribute {name}')


class AbsInstance:
    def __init__(self, fields):
        self.fields = fields
        self.d = {}

    def isinstance_(self, t):
        return t is object or (isinstance(t, type) and issubclass(t, tm.TlvModel)) or t is tm.TlvModel

    def getattr_(self, it, name, node):
        if name == '_encoded_fields':
            return self.fields
        if name == '__dict__':
            return self.d
        if name in ('encoded_length', 'encode'):
            from pyvc.values import BoundMethod
            return BoundMethod(getattr(tm.TlvModel, name), self)
        raise Unsupported(f'abstract instance attribute {name}')

    def setattr_(self, it, name, val, node):
        if name == '__dict__':
            self.d = val
            return
        raise Unsupported(f'abstract instance attribute assignment {name}')


class AbsClass:
    def __init__(self, fields):
        self.fields = fields

    def call_(self, it, args, kwargs, node):
        return AbsInstance(self.fields)

    def getattr_(self, it, name, node):
        if name == '_encoded_fields':
            return self.fields
        raise Unsupported(f'abstract class attribute {name}')


# ----------------------------------------------------------------------------- encoded_length
def _len_inv(it, env, g):
    return {'sum_of_announced': zint(env['ret']) == g['seq'].psum(g['i'])}


@contract
class model_encoded_length(Contract):
    fn = tm.TlvModel.encoded_length
    props = ('C08', 'C01')
    prefer_inline = True
    doc = 'TlvModel.encoded_length == sum of the sizes announced by the fields, in declared order; recorded in markers'

    def setup(self, cx):
        fields = AbsFields(cx.run)
        m = cx.run.choose([('markers=None', True), ('markers={}', True)], 'case')
        return dict(self=AbsInstance(fields), markers=None if m == 'markers=None' else {})

    raises = {TypeError: lambda cx, self, markers: True, ValueError: lambda cx, self, markers: True}
    loops = {1: LoopSpec(_len_inv)}

    def post(c, cx, result, self, markers):
        out = {'total': zint(result) == self.fields.psum(self.fields.n)}
        if markers is not None:
            out['recorded'] = Eq(markers.get('##encoded_length', -1), result)
        return out

    def use_contract_at(c, it, args, kwargs):
        return isinstance(args[0], AbsInstance)       # concrete classes: the driver is inlined (fields unrolled)

    def result(c, cx, self, markers):
        r = cx.run.fresh_int('announced_total')
        cx.run.assume(r == self.fields.psum(self.fields.n))
        if markers is not None:
            markers['##encoded_length'] = r
        return r


# ----------------------------------------------------------------------------- encode
def _enc_inv(it, env, g):
    seq = g['seq']
    cx = it.run.ghost['enc.cx']
    off0 = it.run.ghost['enc.off0']
    wire = env['wire_view']
    out = {'consecutive_offsets': zint(env['offset']) == zint(off0) + seq.psum(g['i']),
           'inside_buffer': zint(env['offset']) <= zint(wire.length)}
    if not it.run.ghost['enc.fresh']:
        out['frame'] = cx.frame(wire, off0, env['offset'])
    return out


@contract
class model_encode(Contract):
    fn = tm.TlvModel.encode
    props = ('C08', 'C01')
    prefer_inline = True
    doc = ('TlvModel.encode writes the fields in declared order at consecutive offsets, exactly the announced number of '
           'bytes in total; a buffer allocated by encode has exactly the announced size; nothing else is written')

    def setup(self, cx):
        fields = AbsFields(cx.run)
        w = cx.run.choose([('wire=None', True), ('wire', True)], 'case')
        wire = None if w == 'wire=None' else cx.run.input_buf('wire', 'bytearray')
        offset = cx.run.input_int('offset')
        m = cx.run.choose([('markers=None', True), ('markers={}', True), ('markers=precomputed', True)], 'case')
        markers = None if m == 'markers=None' else {}
        if m == 'markers=precomputed':
            markers['##encoded_length'] = fields.psum(fields.n)
        cx.run.ghost.update({'enc.cx': cx, 'enc.off0': offset, 'enc.fresh': wire is None})
        return dict(self=AbsInstance(fields), wire=wire, offset=offset, markers=markers)

    def pre(c, cx, self, wire, offset, markers):
        if wire is None:
            return Eq(offset, 0)                       # a buffer allocated by encode() starts at offset 0
        return And(zint(offset) >= 0, zint(offset) <= zint(wire.length))

    raises = {e: (lambda cx, self, wire, offset, markers: True) for e in ENCODE_RAISES}
    loops = {1: LoopSpec(_enc_inv)}

    def use_contract_at(c, it, args, kwargs):
        return isinstance(args[0], AbsInstance)

    def result(c, cx, self, wire, offset, markers):
        f = self.fields
        total = f.psum(f.n)
        if wire is None:
            return cx.run.alloc(total, 'bytearray', cx.run.fresh_row('model'), True)
        cx.run.assume(zint(offset) + total <= zint(wire.length))     # python never writes outside a buffer
        cx.run.havoc_range(wire, offset, total, 'model')
        return wire

    def post_assumed(c, cx, result, self, wire, offset, markers):
        return {}

    def post(c, cx, result, self, wire, offset, markers):
        f = self.fields
        total = f.psum(f.n)
        out = {}
        if wire is None:
            if not isinstance(result, View):
                return {'returns_buffer': False}
            out['allocated_exactly_announced'] = Eq(result.length, total)
        else:
            out['returns_given_buffer'] = result is wire
            out['frame'] = cx.frame(wire, offset, simp(zint(offset) + total))
        return out


# ----------------------------------------------------------------------------- parse
def _parse_inv(it, env, g):
    wire = env['wire']
    f = g['fields']
    return {'offset_inside_wire': (And(zint(env['offset']) >= 0, zint(env['offset']) <= zint(wire.length)),
                                   {'declared_length_overruns_parent': zint(env['offset']) > zint(wire.length)}),
            'field_pos_in_range': And(zint(env['field_pos']) >= 0, zint(env['field_pos']) <= f.n)}


def _parse_step(it, pre, env, g):
    f = g['fields']
    i, typ, fp0, fp1 = zint(env['i']), zint(env['typ']), zint(pre['field_pos']), zint(env['field_pos'])
    j = z3.Int('j!least')
    kind_i = z3.Select(f.kinds, i)
    ic = it.truth(g['ignore_critical'])
    return {
        'consumes_at_least_two_bytes': zint(env['offset']) >= zint(pre['offset']) + 2,
        'unrecognised_critical_rejected': Implies(i >= f.n, Or(typ % 2 == 0, ic)),
        'unrecognised_element_changes_nothing': Implies(i >= f.n, fp1 == fp0),
        'found_is_first_match_at_or_after_position': Implies(i < f.n, z3.And(
            i >= fp0, z3.ForAll([j], z3.Implies(z3.And(j >= fp0, j < i), z3.Select(f.types, j) != z3.Select(f.types, i))))),
        'next_position': Implies(i < f.n, fp1 == z3.If(z3.Or(kind_i == KIND_REPEATED, kind_i == KIND_MAP), i, i + 1)),
    }


def _search_inv(it, env, g):
    f = env['ret'].fields
    i, fp, typ = zint(env['i']), zint(env['field_pos']), zint(env['typ'])
    j = z3.Int('j!search')
    return {'range': And(i >= fp, i <= f.n),
            'no_match_before': z3.ForAll([j], z3.Implies(z3.And(j >= fp, j < i), z3.Select(f.types, j) != typ))}


def _havoc_typ(it, env, g):
    # runs after `offset` was havocked (targets are havocked in name order): remember the scan position at the loop head,
    # i.e. where the element examined in this iteration starts
    it.run.ghost['parse.head_offset'] = env['offset']
    return it.run.fresh_int('typ')


@contract
class model_parse(Contract):
    fn = tm.TlvModel.parse
    props = ('C07', 'C08', 'C06', 'C10', 'C02')
    doc = ('TlvModel.parse: every element handed to a field lies entirely inside the wire; a recognised element is matched to '
           'the first field of that type at or after the current position; an unrecognised critical element raises DecodeError '
           'unless ignore_critical, an unrecognised non-critical one is skipped and changes nothing; each iteration consumes '
           '>= 2 bytes (linear time); skipped fields (offset markers) are told the start of the element that was found; it returns only after the whole wire has been examined element by element; only '
           'documented decoding errors escape')

    def setup(self, cx):
        fields = AbsFields(cx.run)
        cx.run.ghost['parse.fields'] = fields
        m = cx.run.choose([('markers=None', True), ('markers={}', True)], 'case')
        ic = cx.run.input_bool('ignore_critical')
        cx.run.ghost['parse.ic'] = ic
        return dict(cls=AbsClass(fields), wire=cx.run.input_buf('wire', 'bytes'),
                    markers=None if m == 'markers=None' else {}, ignore_critical=ic)

    raises = {e: (lambda cx, cls, wire, markers, ignore_critical: True) for e in PARSE_RAISES}

    loops = {
        1: LoopSpec(_parse_inv, var=lambda it, env, g: zint(env['wire'].length) - zint(env['offset']),
                    ghost=lambda it, env, g: {'fields': it.run.ghost['parse.fields'], 'ignore_critical': it.run.ghost['parse.ic']},
                    step=_parse_step,
                    havoc={'i': lambda it, env, g: it.run.fresh_int('i'), 'typ': _havoc_typ,
                           'length': lambda it, env, g: it.run.fresh_int('length'),
                           'val': lambda it, env, g: None, 'cur_field': lambda it, env, g: None}),
        2: LoopSpec(_search_inv, var=lambda it, env, g: env['ret'].fields.n - zint(env['i'])),
        3: LoopSpec(lambda it, env, g: {}),
    }

    def xpost(c, cx, e, cls, wire, markers, ignore_critical):
        if e.cls is not tm.DecodeError or not hasattr(e, 'locals') or 'i' not in e.locals:
            return {}
        f = cls.fields
        loc = e.locals
        return {'only_for_unrecognised_critical': And(zint(loc['i']) >= f.n, zint(loc['typ']) % 2 == 1,
                                                       Not(cx.it.truth(ignore_critical)))}

    def use_contract_at(c, it, args, kwargs):
        return True

    def apply_at(c, cx, p, node, site):
        """call sites with a SHIPPED class: the summary in contracts/parse_summary.py"""
        from contracts.parse_summary import parse_model
        cls, wire, markers = p['cls'], p['wire'], p.get('markers')
        if isinstance(cls, AbsClass):
            raise Unsupported('nested abstract parse')
        if not isinstance(wire, View):
            cx.it.raise_(TypeError, 'a bytes-like object is required', node=node)
        return parse_model(cx.it, cls, wire, markers if markers is not None else {}, node, p.get('ignore_critical', False))

    def post(c, cx, result, cls, wire, markers, ignore_critical):
        loc = cx.it.top_locals
        return {'returns_instance': isinstance(result, AbsInstance),
                # the scan may end only at the end of the wire: no element is left unexamined (so none escapes the
                # criticality test of the loop step), whatever position the field list has reached
                'every_element_of_the_wire_was_examined': zint(loc['offset']) >= zint(wire.length)}
