"""Contracts for app_support/dispatcher.py (property C04) and for the command-name layout of nfd_mgmt.make_command_v2
(property C17)."""
import struct
import z3
from ndn.app_support import dispatcher as dp, nfd_mgmt
from ndn.name_tree import PrefixTreeNode
from pyvc.zutil import *
from pyvc.contracts import Contract, contract
from pyvc.run import View, Unsupported
from pyvc.values import SymObj, Opaque
from pyvc.symseq import BufSeq
from contracts.assumed_aio import _M, UserFn, Fib
from contracts.fib import FibModel, NameId, others_untouched
from contracts.name import bytes_equal
from contracts.fields2 import is_plain_model      # noqa: F401
from spec.tlv import *


@contract
class disp_register(Contract):
    fn = dp.Dispatcher.register
    props = ('C04',)
    doc = ('Dispatcher.register: a prefix that already has a callback is refused with ValueError and nothing changes; otherwise exactly '
           'that prefix gets this callback; other prefixes untouched')
    exact_raises = True
    raises = {ValueError: lambda cx, self, name, func: (lambda f: z3.And(z3.Select(f.dom0, zint(name.kid)),
                                                                          z3.Select(f.cb0, zint(name.kid))))(cx.run.ghost['fib'])}

    def setup(self, cx):
        fib = FibModel(cx.run)
        cx.run.ghost['fib'] = fib
        return dict(self=SymObj(dp.Dispatcher, dict(_tree=fib)), name=NameId(cx.run.input_int('name_id')), func=UserFn('callback'))

    def xpost(c, cx, e, self, name, func):
        f = cx.run.ghost['fib']
        j = z3.Int('j!x')
        return {'refused_registration_changes_nothing': z3.And(f.writes == [], z3.ForAll([j], z3.And(
            z3.Select(f.dom, j) == z3.Select(f.dom0, j), z3.Select(f.has_cb, j) == z3.Select(f.cb0, j))))}

    def post(c, cx, result, self, name, func):
        f = cx.run.ghost['fib']
        k = zint(name.kid)
        return {'prefix_now_has_this_callback': And(z3.Select(f.dom, k), z3.Select(f.has_cb, k), f.writes == [('callback', name.kid, func)]),
                'other_prefixes_untouched': others_untouched(f, k)}


@contract
class disp_unregister(Contract):
    fn = dp.Dispatcher.unregister
    props = ('C04',)
    doc = 'Dispatcher.unregister removes exactly that prefix (KeyError if absent); other prefixes untouched'
    exact_raises = True
    raises = {KeyError: lambda cx, self, name: z3.Not(z3.Select(cx.run.ghost['fib'].dom0, zint(name.kid)))}

    def setup(self, cx):
        fib = FibModel(cx.run)
        cx.run.ghost['fib'] = fib
        return dict(self=SymObj(dp.Dispatcher, dict(_tree=fib)), name=NameId(cx.run.input_int('name_id')))

    def post(c, cx, result, self, name):
        f = cx.run.ghost['fib']
        k = zint(name.kid)
        return {'prefix_removed': z3.And(z3.Not(z3.Select(f.dom, k)), z3.Not(z3.Select(f.has_cb, k))),
                'other_prefixes_untouched': others_untouched(f, k)}


@contract
class disp_dispatch(Contract):
    fn = dp.Dispatcher.dispatch
    props = ('C04',)
    doc = ('Dispatcher.dispatch: the callback stored at the longest registered prefix of the name (assumed pygtrie contract) is called '
           'exactly once with (name, param, app_param) and True is returned; when no prefix matches nothing is called and False is '
           'returned')
    raises = {}

    def setup(self, cx):
        run = cx.run
        nk = run.choose([('no prefix matches', True), ('node', True)], 'tree')
        cb = UserFn('callback')
        node = SymObj(PrefixTreeNode, dict(callback=cb, validator=None, extra_param=None)) if nk == 'node' else None
        fib = Fib(node)
        run.ghost['dd'] = (cb, fib, node)
        return dict(self=SymObj(dp.Dispatcher, dict(_tree=fib)), name=Opaque('token', 'name'), param=Opaque('token', 'param'),
                    app_param=Opaque('token', 'app_param'))

    def post(c, cx, result, self, name, param, app_param):
        cb, fib, node = cx.run.ghost['dd']
        out = {'lookup_is_longest_prefix_of_the_name': fib.queries == [('longest_prefix', name)]}
        if node is None:
            out['nothing_matches_nothing_called'] = result is False and cb.calls == []
        else:
            out['longest_match_called_once_with_the_interest'] = result is True and len(cb.calls) == 1 and \
                cb.calls[0][0] == (name, param, app_param)
        return out


# ----------------------------------------------------------------------------- make_command_v2 (C17)
class FaceLoc:
    def __init__(self, local):
        self.local = local

    def truth(self, it):
        return True

    def getattr_(self, it, name, node):
        if name == 'isLocalFace':
            return _M(lambda it_: self.local)
        raise Unsupported(f'face.{name}')


@contract
class make_command_v2(Contract):
    fn = nfd_mgmt.make_command_v2
    props = ('C17',)
    doc = ('make_command_v2(module, command, face, name=prefix): the command name is /localhost/nfd/<module>/<command> (localhop for a '
           'non-local face) followed by exactly one generic component 08 |p| p whose value is the ControlParameters element '
           '68 |n| (07 .. the given prefix ..) and nothing else (ControlParameters unrolled)')
    raises = {ValueError: lambda cx, **p: True, TypeError: lambda cx, **p: True, struct.error: lambda cx, **p: True,
              IndexError: lambda cx, **p: True}

    def setup(self, cx):
        run = cx.run
        fk = run.choose([('no face', True), ('local face', True), ('remote face', True)], 'face')
        face = None if fk == 'no face' else FaceLoc(fk == 'local face')
        prefix = run.input_bufseq('prefix', 'bytearray')
        run.assume(prefix.total() < 2 ** 16)
        run.ghost['mc'] = dict(fk=fk)
        return dict(module='rib', command='register', face=face, kwargs={'name': prefix})

    def post(c, cx, result, module, command, face, kwargs):
        run = cx.run
        h = cx.heap
        g = run.ghost['mc']
        want = '/localhop/nfd/rib/register' if g['fk'] == 'remote face' else '/localhost/nfd/rib/register'
        calls = run.ghost.get('from_str_calls', [])
        out = {'returns_a_component_list': isinstance(result, BufSeq),
               'command_prefix_parsed_from_the_right_text': len(calls) == 1 and calls[0][0] == want and calls[0][1] is result}
        if not isinstance(result, BufSeq) or len(calls) != 1:
            return out
        n0 = zint(calls[0][2])
        prefix = kwargs['name']
        last = result.elem(cx.it, simp(zint(result.n) - 1))
        total = prefix.total()
        name_len = 1 + tlsize(total) + total
        cp_len = 1 + tlsize(name_len) + name_len
        out['exactly_one_component_appended'] = Eq(zint(result.n), n0 + 1)
        p0 = 1 + tlsize(cp_len)
        p1 = p0 + 1 + tlsize(name_len)
        out['parameters_component_is_generic_with_exact_length'] = And(Eq(zint(last.length), 1 + tlsize(cp_len) + cp_len),
                                                                       last.at(h, 0) == 0x08, tlenc_at(h, last, 1, cp_len))
        out['its_value_is_one_control_parameters_element'] = And(last.at(h, p0) == 0x68, tlenc_at(h, last, p0 + 1, name_len))
        out['which_holds_exactly_the_prefix_name'] = And(last.at(h, p1) == 0x07, tlenc_at(h, last, p1 + 1, total))
        return out
