"""Contracts for InterestNameField (tlv_model.py): the Interest Name with its ParametersSha256Digest component."""
import struct
import z3
from ndn.encoding import tlv_model as tm
from pyvc.zutil import *
from pyvc.contracts import Contract, contract, LoopSpec
from pyvc.run import View, Unsupported
from pyvc.values import SymObj, OptInt, SymStr
from pyvc.symseq import BufSeq, PS
from spec.tlv import *
from contracts.fields import A, key
from contracts.fields2 import arg_key, get_arg, name_cases

TYPE_NAME, T_DIGEST = 7, 2
P = ('C01', 'C02')


def ctype(h, seq, j):
    """type number of component j (first var-number of its bytes)"""
    v = View(z3.Select(seq.cells, j), z3.Select(seq.starts, j), z3.Select(seq.lens, j), seq.kind)
    return tlval_at(h, v, 0)


def wf_components(run, h, seq):
    """every component is a complete TLV element with a legal type (what the rest of the library produces)"""
    j = z3.Int('j!wf')
    v = View(z3.Select(seq.cells, j), z3.Select(seq.starts, j), z3.Select(seq.lens, j), seq.kind)
    tn = need_at(h, v, 0)
    return z3.ForAll([j], z3.Implies(z3.And(j >= 0, j < zint(seq.n)), z3.And(
        z3.Select(seq.lens, j) >= 2, tn + need_at(h, v, tn) <= z3.Select(seq.lens, j),
        z3.Select(seq.lens, j) == tn + need_at(h, v, tn) + tlval_at(h, v, tn))))


def mk_self(cx):
    def pa(name, default=None):
        return SymObj(tm.ProcedureArgument, dict(name=name, type_num=-1, default=default))
    return SymObj(tm.InterestNameField, dict(name='name', type_num=TYPE_NAME, default='/', need_digest=pa('_need_digest'),
                                             sig_covered_part=pa('_sig_cover_part'), digest_buffer=pa('_digest_buf')))


def digest_facts(h, seq, dp, need):
    """dp (OptInt) is the position of the only digest component, or None when there is none"""
    j = z3.Int('j!dg')
    n = zint(seq.n)
    others = z3.ForAll([j], z3.Implies(z3.And(j >= 0, j < n, z3.Or(zbool(dp.isnone), j != zint(dp.val))),
                                       z3.And(ctype(h, seq, j) != T_DIGEST, ctype(h, seq, j) != 0)))
    at = z3.Implies(z3.Not(zbool(dp.isnone)), z3.And(zint(dp.val) >= 0, zint(dp.val) < n, ctype(h, seq, zint(dp.val)) == T_DIGEST,
                                                  zbool(need)))
    return others, at


def _len_inv(it, env, g):
    h = it.run.heap
    name = env['name']
    dp = env['digest_pos']
    dp = dp if isinstance(dp, OptInt) else OptInt(True, 0) if dp is None else OptInt(False, dp)
    i = zint(g['i'])
    j = z3.Int('j!li')
    need = it.truth(env['need_digest'])
    return {'at_most_one_digest_so_far': z3.And(
        z3.ForAll([j], z3.Implies(z3.And(j >= 0, j < i, z3.Or(zbool(dp.isnone), j != zint(dp.val))),
                                  z3.And(ctype(h, name, j) != T_DIGEST, ctype(h, name, j) != 0))),
        z3.Implies(z3.Not(zbool(dp.isnone)), z3.And(zint(dp.val) >= 0, zint(dp.val) < i, ctype(h, name, zint(dp.val)) == T_DIGEST,
                                                    zbool(need)))),
            'same_list': name is g['name0']}


@contract
class iname_encoded_length(Contract):
    fn = tm.InterestNameField.encoded_length
    props = P
    doc = ('InterestNameField.encoded_length (component lists of any length): announces 1 + tlsize(L) + L where L is the total '
           'size of the components plus 34 when a digest is needed and none is present; a digest component is located if it '
           'occurs exactly once and is needed; ValueError if it occurs but is not needed or occurs twice; TypeError for '
           'invalid component types')
    raises = {ValueError: lambda cx, self, val, markers: True, TypeError: lambda cx, self, val, markers: True,
              IndexError: lambda cx, self, val, markers: not isinstance(val, BufSeq),
              struct.error: lambda cx, self, val, markers: not isinstance(val, BufSeq)}
    loops = {1: LoopSpec(_len_inv, ghost=lambda it, env, g: {'name0': env['name']},
                         havoc={'digest_pos': lambda it, env, g: OptInt(it.run.fresh_bool('dp_none'), it.run.fresh_int('dp')),
                                'typ': lambda it, env, g: None})}

    def setup(self, cx):
        run = cx.run
        self_ = mk_self(cx)
        seq = run.input_bufseq('name', 'bytearray')
        run.assume(seq.total() < 2 ** 32)
        run.assume(wf_components(run, run.heap, seq))
        need = run.input_bool('need_digest')
        markers = {arg_key(A(self_, 'need_digest')): need}
        return dict(self=self_, val=seq, markers=markers)

    def post(c, cx, result, self, val, markers):
        h = cx.old_heap
        need = get_arg(A(self, 'need_digest'), markers)
        name = markers.get(key(self, 'preprocessed_name'))
        dp = markers.get(key(self, 'digest_pos'), 'missing')
        if dp == 'missing' or not isinstance(name, BufSeq):
            return {'markers_recorded': False}
        dp = dp if isinstance(dp, OptInt) else (OptInt(True, 0) if dp is None else OptInt(False, dp))
        others, at = digest_facts(h, name, dp, need)
        total = name.total()
        L = total + z3.If(z3.And(zbool(cx.it.truth(need)), zbool(dp.isnone)), 34, 0)
        return {'announced': Eq(result, 1 + tlsize(L) + L),
                'recorded_length': Eq(markers.get(key(self, 'encoded_length'), -1), L),
                'digest_located_iff_present_once': z3.And(others, at),
                'works_on_a_copy': And(name is not val, Eq(name.n, val.n), name.cells == val.cells, name.starts == val.starts,
                                       name.lens == val.lens)}

    def result(c, cx, self, val, markers):
        run = cx.run
        h = cx.heap
        need = get_arg(A(self, 'need_digest'), markers)
        if isinstance(val, BufSeq):
            name = val.copy()
        else:
            name = BufSeq.fresh(run, 'iname', 'memoryview')
            run.assume(name.total() < 2 ** 32)
            run.assume(wf_components(run, h, name))
        dp = OptInt(run.fresh_bool('dp_none'), run.fresh_int('dp'))
        others, at = digest_facts(h, name, dp, need)
        run.assume(z3.And(others, at))
        total = name.total()
        L = run.fresh_int('iname_len')
        run.assume(L == total + z3.If(z3.And(zbool(cx.it.truth(need)), zbool(dp.isnone)), 34, 0))
        markers[key(self, 'digest_pos')] = dp
        markers[key(self, 'preprocessed_name')] = name
        markers[key(self, 'encoded_length')] = L
        run.ghost['iname.facts'] = dict(name=name, dp=dp, L=L, need=need)
        return simp(1 + tlsize(L) + L)

    def post_assumed(c, cx, result, self, val, markers):
        return {}

    def build(self, i):
        from ndn.encoding import ndn_format_0_3 as nf
        field = nf.InterestPacketValue.name
        comps = [bytes.fromhex(x) for x in i['name']['components_hex']]
        return (field, comps, {'_need_digest##args': bool(i['need_digest'])}), {}


# ----------------------------------------------------------------------------- encode_into
def _state(it, env, g):
    """ghost facts about one point of the component loop of encode_into"""
    run = it.run
    name, dp = g['name'], g['dp']
    i = zint(g['i'])
    base = zint(g['base'])
    passed = z3.And(z3.Not(zbool(dp.isnone)), i > zint(dp.val))          # the digest component was already written
    before = name.psum(dp.val) if not (dp.isnone is True) else z3.IntVal(0)
    return name, dp, i, base, passed, before


def _enc_inv(it, env, g):
    run = it.run
    name, dp, i, base, passed, before = _state(it, env, g)
    wire = env['wire']
    lst = g['covered']
    db = env['digest_buf']
    out = {'offset_accounting': zint(env['offset']) == base + name.psum(i),
           'inside_buffer': zint(env['offset']) <= zint(wire.length),
           'cover_start': zint(env['cover_start']) == z3.If(passed, base + before + 34, base),
           'frame': g['cx'].frame(wire, g['off0'], simp(zint(g['off0']) + 1 + tlsize(g['L']) + zint(g['L']))),
           'header': And(wire.at(run.heap, g['off0']) == TYPE_NAME, tlenc_at(run.heap, wire, simp(zint(g['off0']) + 1), g['L']))}
    # covered list: nothing before the digest component was reached; afterwards exactly the bytes in front of it (if any)
    if len(lst) == 0:
        out['covered_so_far'] = Not(And(passed, before > 0))
    elif len(lst) == 1 and isinstance(lst[0], View):
        v = lst[0]
        out['covered_so_far'] = And(passed, before > 0, Eq(v.cell, wire.cell), zint(v.start) == zint(wire.start) + base,
                                    zint(v.length) == before)
    else:
        out['covered_so_far'] = False
    if db is None:
        out['digest_buffer_so_far'] = Not(passed)
    elif isinstance(db, View):
        out['digest_buffer_so_far'] = And(passed, Eq(db.cell, wire.cell), zint(db.start) == zint(wire.start) + base + before + 2,
                                          zint(db.length) == 32)
    else:
        out['digest_buffer_so_far'] = False
    return out


def _enc_ghost(it, env, g):
    gg = it.run.ghost['iname.enc']
    return dict(gg)


def _enc_havoc_state(it, env, g):
    """havoc of the covered list / digest buffer / cover_start: case split on 'digest component already written'"""
    run = it.run
    name, dp = g['name'], g['dp']
    lst = g['covered']
    del lst[:]
    wire = env['wire']
    base = zint(g['base'])
    which = run.choose([('digest not reached yet', True), ('digest already written', Not(dp.isnone))], 'loop state')
    if which == 'digest not reached yet':
        env['digest_buf'] = None
        return base
    before = name.psum(dp.val)
    if run.branch(before > 0, 'components in front of the digest'):
        lst.append(View(wire.cell, simp(zint(wire.start) + base), simp(before), 'memoryview', True))
    env['digest_buf'] = View(wire.cell, simp(zint(wire.start) + base + before + 2), 32, 'memoryview', True)
    return simp(base + before + 34)


@contract
class iname_encode_into(Contract):
    fn = tm.InterestNameField.encode_into
    props = P
    doc = ('InterestNameField.encode_into (component lists of any length): writes 07, the shortest-form announced length and '
           'every component at consecutive offsets, appends 02 20 <32 bytes> when a digest is needed and absent; the signer '
           'is handed exactly the component bytes except the digest component (at most two ranges), the digest buffer is the '
           '32 value bytes of the digest component; returns the announced size; nothing else is written')
    raises = {struct.error: lambda cx, **p: zint(p['offset']) + 1 + tlsize(p['markers'][key(p['self'], 'encoded_length')]) +
              zint(p['markers'][key(p['self'], 'encoded_length')]) > zint(p['wire'].length),
              ValueError: lambda cx, **p: zint(p['offset']) + 1 + tlsize(p['markers'][key(p['self'], 'encoded_length')]) +
              zint(p['markers'][key(p['self'], 'encoded_length')]) > zint(p['wire'].length)}
    loops = {1: LoopSpec(_enc_inv, ghost=_enc_ghost,
                         havoc={'cover_start': _enc_havoc_state, 'digest_buf': lambda it, env, g: env['digest_buf']},
                         abstracts=('sig_cover_part',))}        # the covered list is re-built by _enc_havoc_state (ghost g['covered'])

    def setup(self, cx):
        run = cx.run
        self_ = mk_self(cx)
        name = run.input_bufseq('name', 'bytearray')
        run.assume(name.total() < 2 ** 24)
        h = run.heap
        run.assume(wf_components(run, h, name))
        need = run.input_bool('need_digest')
        dpk = run.choose([('no digest component', True), ('digest component', True)], 'digest_pos')
        dp = OptInt(True, 0) if dpk == 'no digest component' else OptInt(False, run.input_int('digest_pos'))
        others, at = digest_facts(h, name, dp, need)
        run.assume(z3.And(others, at))
        if dp.isnone is False:
            run.assume(z3.Select(name.lens, zint(dp.val)) == 34)
        total = name.total()
        L = run.fresh_int('L')
        run.assume(L == total + z3.If(z3.And(zbool(need), zbool(dp.isnone)), 34, 0))
        covered = []
        markers = {key(self_, 'encoded_length'): L, key(self_, 'preprocessed_name'): name, key(self_, 'digest_pos'): dp if dp.isnone is False else None,
                   arg_key(A(self_, 'need_digest')): need, arg_key(A(self_, 'sig_covered_part')): covered}
        wire = run.input_buf('wire', 'memoryview', True)
        offset = run.input_int('offset')
        run.ghost['iname.enc'] = dict(name=name.copy(), dp=dp, L=L, covered=covered, cx=cx, off0=offset,
                                      base=simp(zint(offset) + 1 + tlsize(L)), need=need)
        return dict(self=self_, val=None, markers=markers, wire=wire, offset=offset)

    def pre(c, cx, self, val, markers, wire, offset):
        return And(zint(offset) >= 0, zint(offset) <= zint(wire.length), zint(wire.length) > 0)

    def post(c, cx, result, self, val, markers, wire, offset):
        run = cx.run
        g = run.ghost['iname.enc']
        name, dp, L, need = g['name'], g['dp'], g['L'], g['need']
        h = cx.heap
        base = zint(g['base'])
        total = name.total()
        lst = markers[arg_key(A(self, 'sig_covered_part'))]
        db = markers.get(arg_key(A(self, 'digest_buffer')))
        out = {'as_announced': Eq(result, 1 + tlsize(L) + L),
               'type_byte': wire.at(h, offset) == TYPE_NAME,
               'length_shortest': tlenc_at(h, wire, simp(zint(offset) + 1), L),
               'frame': cx.frame(wire, offset, simp(zint(offset) + 1 + tlsize(L) + zint(L)))}
        # the signed portion of the name: every component except the digest component
        if dp.isnone is True:
            exp = [(base, total)]
            digest_at = base + total + 2
        else:
            before = name.psum(dp.val)
            exp = [(base, before), (base + before + 34, total - before - 34)]
            digest_at = base + before + 2
        ranges = [(zint(v.start) - zint(wire.start), zint(v.length)) for v in lst if isinstance(v, View)]
        ok_views = all(isinstance(v, View) and Eq(v.cell, wire.cell) is True for v in lst)
        out['covered_are_views_of_wire'] = ok_views
        # compare as lists of non-empty ranges
        conds = []
        if len(ranges) == 0:
            conds = [ln <= 0 for _, ln in exp]
        elif len(ranges) == 1:
            alts = []
            for idx, (st, ln) in enumerate(exp):
                others_empty = [l2 <= 0 for j2, (_, l2) in enumerate(exp) if j2 != idx]
                alts.append(And(ln > 0, ranges[0][0] == st, ranges[0][1] == ln, *others_empty))
            conds = [Or(*alts)]
        elif len(ranges) == 2 and len(exp) == 2:
            conds = [And(exp[0][1] > 0, exp[1][1] > 0, ranges[0][0] == exp[0][0], ranges[0][1] == exp[0][1],
                         ranges[1][0] == exp[1][0], ranges[1][1] == exp[1][1])]
        else:
            conds = [False]
        out['signer_gets_all_components_except_the_digest'] = And(*conds)
        if cx.it.truth(need) is False:
            out['no_digest_buffer_without_need'] = db is None
        else:
            # (when the caller's buffer is too small for the appended digest value the slice is silently shorter; callers
            #  allocate the announced size, so the clause is stated for buffers that hold the whole Name)
            fits = zint(offset) + 1 + tlsize(L) + zint(L) <= zint(wire.length)
            out['digest_buffer_is_the_digest_value'] = Implies(And(cx.it.truth(need), fits), And(
                isinstance(db, View), *( [Eq(db.cell, wire.cell), zint(db.start) - zint(wire.start) == digest_at, zint(db.length) == 32]
                                         if isinstance(db, View) else [False])))
        return out


def _iname_result(c, cx, self, val, markers, wire, offset):
    """call-site summary of InterestNameField.encode_into (same facts as its verified postcondition)"""
    run = cx.run
    name = markers[key(self, 'preprocessed_name')]
    dp = markers[key(self, 'digest_pos')]
    dp = dp if isinstance(dp, OptInt) else (OptInt(True, 0) if dp is None else OptInt(False, dp))
    L = markers[key(self, 'encoded_length')]
    need = get_arg(A(self, 'need_digest'), markers)
    lst = get_arg(A(self, 'sig_covered_part'), markers)
    n = simp(1 + tlsize(L) + zint(L))
    run.assume(zint(offset) + n <= zint(wire.length))          # a normal return means everything fitted
    run.havoc_range(wire, offset, n, 'iname')
    run.assume(bytes_in_range(cx.heap, wire, offset, 10))
    base = simp(zint(offset) + 1 + tlsize(L))
    total = name.total()

    def view(st, ln):
        return View(wire.cell, simp(zint(wire.start) + st), simp(ln), 'memoryview', True)
    if run.branch(dp.isnone, 'no digest component in the name'):
        if run.branch(total > 0, 'name has components'):
            lst.append(view(base, total))
        digest_at = simp(base + total + 2)
        if cx.it.truth(need) is not False and run.branch(cx.it.truth(need), 'digest needed'):
            name.append(cx.it, view(base + total, 34))
            markers[arg_key(A(self, 'digest_buffer'))] = view(digest_at, 32)
    else:
        before = name.psum(dp.val)
        run.assume(z3.Select(name.lens, zint(dp.val)) == 34)
        if run.branch(before > 0, 'components in front of the digest'):
            lst.append(view(base, before))
        rest = simp(total - before - 34)
        if run.branch(rest > 0, 'components after the digest'):
            lst.append(view(base + before + 34, rest))
        markers[arg_key(A(self, 'digest_buffer'))] = view(base + before + 2, 32)
    return n


def _iname_post_assumed(c, cx, result, self, val, markers, wire, offset):
    L = markers[key(self, 'encoded_length')]
    return {'t': wire.at(cx.heap, offset) == TYPE_NAME, 'l': tlenc_at(cx.heap, wire, simp(zint(offset) + 1), L)}


iname_encode_into.result = _iname_result
iname_encode_into.post_assumed = _iname_post_assumed


# ----------------------------------------------------------------------------- parse_from (parse-side signed portion, C02)
from pyvc.values import Opaque                                        # noqa: E402
BOOLARR = z3.ArraySort(INT, z3.BoolSort())


class CoverList:
    """sig_cover_part while the component loop runs: the in-order sub-sequence {a | kept[a]} of the decoded name"""

    def __init__(self, seq, kept):
        self.seq, self.kept = seq, kept

    def getattr_(self, it, name, node):
        if name != 'append':
            raise Unsupported(f'list.{name} on the covered-part list')

        def append(it_, v):
            g = it_.top_locals.get('__active_loop_ghosts__', {}).get(1)
            if g is None or not isinstance(v, View):
                raise Unsupported('append to the covered-part list outside the component loop')
            i = zint(g['i'])
            s = self.seq
            it_.run.oblige(f'{it_.where()}#covered.append_is_the_current_component',
                           And(Eq(v.cell, z3.Select(s.cells, i)), Eq(v.start, z3.Select(s.starts, i)), Eq(v.length, z3.Select(s.lens, i))))
            b = z3.Int('b!cov')
            it_.run.oblige(f'{it_.where()}#covered.append_keeps_order', z3.ForAll([b], z3.Implies(b >= i, z3.Not(z3.Select(self.kept, b)))))
            self.kept = z3.Store(self.kept, i, z3.BoolVal(True))
        from contracts.assumed_aio import _M
        return _M(append)


def _pf_kept(v):
    if isinstance(v, CoverList):
        return v.kept
    if isinstance(v, list) and v == []:
        return z3.K(INT, z3.BoolVal(False))
    raise Unsupported('covered-part list value')


def _pf_digest_state(it, env, g, i):
    """digest buffer after i components: None iff none of them is a ParametersSha256 component, else the value bytes of the LAST one"""
    run = it.run
    h = run.heap
    seq = g['seq']
    d = g['lastd']
    a = z3.Int('a!pfd')
    db = env['markers'].get(g['dkey'])
    none_so_far = z3.ForAll([a], z3.Implies(z3.And(a >= 0, a < i), ctype(h, seq, a) != T_DIGEST))
    if db is None:
        return none_so_far
    if not isinstance(db, View):
        return False
    comp = View(z3.Select(seq.cells, d), z3.Select(seq.starts, d), z3.Select(seq.lens, d), seq.kind)
    tn = need_at(h, comp, 0)
    sn = need_at(h, comp, tn)
    return z3.And(d >= 0, d < i, ctype(h, seq, d) == T_DIGEST,
                  z3.ForAll([a], z3.Implies(z3.And(a > d, a < i), ctype(h, seq, a) != T_DIGEST)),
                  Eq(db.cell, comp.cell), Eq(db.start, comp.start + tn + sn), Eq(zint(db.start) + zint(db.length), zint(comp.start) + zint(comp.length)))


def _pf_inv(it, env, g):
    h = it.run.heap
    i = zint(g['i'])
    seq = g['seq']
    a = z3.Int('a!pfi')
    kept = _pf_kept(env['sig_cover_part'])
    return {'covered_so_far_is_every_component_but_the_digest_ones': z3.ForAll([a], z3.Select(kept, a) == z3.And(a >= 0, a < i, ctype(h, seq, a) != T_DIGEST)),
            'digest_buffer_so_far': _pf_digest_state(it, env, g, i)}


def _pf_ghost(it, env, g):
    return {'lastd': z3.IntVal(-1), 'dkey': it.run.ghost['pf']['dkey']}


def _pf_havoc_cover(it, env, g):
    run = it.run
    seq = g['seq']
    # digest buffer: either not seen yet or the value of some earlier component `lastd` (pinned by the invariant)
    k = run.choose([('no digest component yet', True), ('digest component seen', True)], 'loop state')
    mk = env['markers']
    if k == 'no digest component yet':
        mk.pop(g['dkey'], None)
    else:
        d = run.fresh_int('lastd')
        g['lastd'] = d
        comp = View(z3.Select(seq.cells, d), z3.Select(seq.starts, d), z3.Select(seq.lens, d), seq.kind)
        st, ln = run.fresh_int('dbstart'), run.fresh_int('dblen')
        mk[g['dkey']] = View(comp.cell, st, ln, 'memoryview', False)
    g['db_head'] = mk.get(g['dkey'])
    return CoverList(seq, z3.Const(run.fresh_name('covered'), BOOLARR))


def _pf_update(it, pre, env, g):
    """ghost: the component handled in this iteration is the last digest component seen when it (re)set the digest buffer"""
    if env['markers'].get(g['dkey']) is not g.get('db_head'):
        g['lastd'] = simp(zint(g['i']))


@contract
class iname_parse_from(Contract):
    fn = tm.InterestNameField.parse_from
    props = ('C02', 'C07')
    doc = ('InterestNameField.parse_from (names of any length): the parsed name is what Name.decode yields at the element; the '
           'signed portion handed to validators is every name component except ParametersSha256Digest components, in order; the '
           'digest buffer is the value bytes of the (last) ParametersSha256Digest component and stays unset without one; only '
           'documented decoding errors are raised')
    raises = {tm.DecodeError: lambda cx, **p: True, IndexError: lambda cx, **p: True, struct.error: lambda cx, **p: True,
              ValueError: lambda cx, **p: True}
    loops = {1: LoopSpec(_pf_inv, ghost=_pf_ghost, havoc={'sig_cover_part': _pf_havoc_cover}, update=_pf_update,
                         abstracts=('markers',))}

    def setup(self, cx):
        run = cx.run
        self_ = mk_self(cx)
        covered = []
        dkey = arg_key(A(self_, 'digest_buffer'))
        markers = {arg_key(A(self_, 'sig_covered_part')): covered}
        run.ghost['pf'] = dict(dkey=dkey, covered=covered)
        wire = run.input_buf('wire', 'memoryview')
        return dict(self=self_, instance=Opaque('token', 'instance'), markers=markers, wire=wire, offset=run.input_int('offset'),
                    length=run.input_int('length'), offset_btl=run.input_int('offset_btl'))

    def pre(c, cx, self, instance, markers, wire, offset, length, offset_btl):
        return And(zint(offset_btl) >= 0, zint(offset_btl) <= zint(wire.length))

    def post(c, cx, result, self, instance, markers, wire, offset, length, offset_btl):
        run = cx.run
        h = run.heap
        out = {'returns_the_decoded_name': isinstance(result, BufSeq)}
        if not isinstance(result, BufSeq):
            return out
        n = zint(result.n)
        a = z3.Int('a!pfp')
        cov = cx.it.top_locals.get('sig_cover_part')
        ok = isinstance(cov, CoverList) and cov.seq is result or (isinstance(cov, list) and cov == [])
        out['covered_list_is_the_one_from_markers'] = ok
        if ok:
            out['signed_portion_is_every_component_but_the_digest_ones_in_order'] = z3.ForAll(
                [a], z3.Select(_pf_kept(cov), a) == z3.And(a >= 0, a < n, ctype(h, result, a) != T_DIGEST))
        g = cx.it.top_locals.get('__loop_ghost__', {})
        env = {'markers': markers}
        gg = dict(seq=result, lastd=g.get('lastd', z3.IntVal(-1)), dkey=run.ghost['pf']['dkey'])
        out['digest_buffer_is_the_value_of_the_last_digest_component_or_unset'] = _pf_digest_state(cx.it, env, gg, n)
        return out
