"""Contracts for InterestNameField (tlv_model.py): the Interest Name with its ParametersSha256Digest component."""
import struct
import z3
from ndn.encoding import tlv_model as tm
from pyvc.zutil import *
from pyvc.contracts import Contract, contract, LoopSpec
from pyvc.run import View, Unsupported
from pyvc.values import SymObj, OptInt, SymStr
from pyvc.symseq import BufSeq, PS
from spec.tlv import *
from contracts.fields import A, key
from contracts.fields2 import arg_key, get_arg, name_cases

TYPE_NAME, T_DIGEST = 7, 2
P = ('C01', 'C02')


def ctype(h, seq, j):
    """type number of component j (first var-number of its bytes)"""
    v = View(z3.Select(seq.cells, j), z3.Select(seq.starts, j), z3.Select(seq.lens, j), seq.kind)
    return tlval_at(h, v, 0)


def wf_components(run, h, seq):
    """every component is a complete TLV element with a legal type (what the rest of the library produces)"""
    j = z3.Int('j!wf')
    v = View(z3.Select(seq.cells, j), z3.Select(seq.starts, j), z3.Select(seq.lens, j), seq.kind)
    tn = need_at(h, v, 0)
    return z3.ForAll([j], z3.Implies(z3.And(j >= 0, j < zint(seq.n)), z3.And(
        z3.Select(seq.lens, j) >= 2, tn + need_at(h, v, tn) <= z3.Select(seq.lens, j),
        z3.Select(seq.lens, j) == tn + need_at(h, v, tn) + tlval_at(h, v, tn))))


def mk_self(cx):
    def pa(name, default=None):
        return SymObj(tm.ProcedureArgument, dict(name=name, type_num=-1, default=default))
    return SymObj(tm.InterestNameField, dict(name='name', type_num=TYPE_NAME, default='/', need_digest=pa('_need_digest'),
                                             sig_covered_part=pa('_sig_cover_part'), digest_buffer=pa('_digest_buf')))


def digest_facts(h, seq, dp, need):
    """dp (OptInt) is the position of the only digest component, or None when there is none"""
    j = z3.Int('j!dg')
    n = zint(seq.n)
    others = z3.ForAll([j], z3.Implies(z3.And(j >= 0, j < n, z3.Or(zbool(dp.isnone), j != zint(dp.val))),
                                       z3.And(ctype(h, seq, j) != T_DIGEST, ctype(h, seq, j) != 0)))
    at = z3.Implies(z3.Not(zbool(dp.isnone)), z3.And(zint(dp.val) >= 0, zint(dp.val) < n, ctype(h, seq, zint(dp.val)) == T_DIGEST,
                                                  zbool(need)))
    return others, at


def _len_inv(it, env, g):
    h = it.run.heap
    name = env['name']
    dp = env['digest_pos']
    dp = dp if isinstance(dp, OptInt) else OptInt(True, 0) if dp is None else OptInt(False, dp)
    i = zint(g['i'])
    j = z3.Int('j!li')
    need = it.truth(env['need_digest'])
    return {'at_most_one_digest_so_far': z3.And(
        z3.ForAll([j], z3.Implies(z3.And(j >= 0, j < i, z3.Or(zbool(dp.isnone), j != zint(dp.val))),
                                  z3.And(ctype(h, name, j) != T_DIGEST, ctype(h, name, j) != 0))),
        z3.Implies(z3.Not(zbool(dp.isnone)), z3.And(zint(dp.val) >= 0, zint(dp.val) < i, ctype(h, name, zint(dp.val)) == T_DIGEST,
                                                    zbool(need)))),
            'same_list': name is g['name0']}


@contract
class iname_encoded_length(Contract):
    fn = tm.InterestNameField.encoded_length
    props = P
    doc = ('InterestNameField.encoded_length (component lists of any length): announces 1 + tlsize(L) + L where L is the total '
           'size of the components plus 34 when a digest is needed and none is present; a digest component is located if it '
           'occurs exactly once and is needed; ValueError if it occurs but is not needed or occurs twice; TypeError for '
           'invalid component types')
    raises = {ValueError: lambda cx, self, val, markers: True, TypeError: lambda cx, self, val, markers: True,
              IndexError: lambda cx, self, val, markers: not isinstance(val, BufSeq),
              struct.error: lambda cx, self, val, markers: not isinstance(val, BufSeq)}
    loops = {1: LoopSpec(_len_inv, ghost=lambda it, env, g: {'name0': env['name']},
                         havoc={'digest_pos': lambda it, env, g: OptInt(it.run.fresh_bool('dp_none'), it.run.fresh_int('dp')),
                                'typ': lambda it, env, g: None})}

    def setup(self, cx):
        run = cx.run
        self_ = mk_self(cx)
        seq = run.input_bufseq('name', 'bytearray')
        run.assume(seq.total() < 2 ** 32)
        run.assume(wf_components(run, run.heap, seq))
        need = run.input_bool('need_digest')
        markers = {arg_key(A(self_, 'need_digest')): need}
        return dict(self=self_, val=seq, markers=markers)

    def post(c, cx, result, self, val, markers):
        h = cx.old_heap
        need = get_arg(A(self, 'need_digest'), markers)
        name = markers.get(key(self, 'preprocessed_name'))
        dp = markers.get(key(self, 'digest_pos'), 'missing')
        if dp == 'missing' or not isinstance(name, BufSeq):
            return {'markers_recorded': False}
        dp = dp if isinstance(dp, OptInt) else (OptInt(True, 0) if dp is None else OptInt(False, dp))
        others, at = digest_facts(h, name, dp, need)
        total = name.total()
        L = total + z3.If(z3.And(zbool(cx.it.truth(need)), zbool(dp.isnone)), 34, 0)
        return {'announced': Eq(result, 1 + tlsize(L) + L),
                'recorded_length': Eq(markers.get(key(self, 'encoded_length'), -1), L),
                'digest_located_iff_present_once': z3.And(others, at),
                'works_on_a_copy': And(name is not val, Eq(name.n, val.n), name.cells == val.cells, name.starts == val.starts,
                                       name.lens == val.lens)}

    def result(c, cx, self, val, markers):
        run = cx.run
        h = cx.heap
        need = get_arg(A(self, 'need_digest'), markers)
        if isinstance(val, BufSeq):
            name = val.copy()
        else:
            name = BufSeq.fresh(run, 'iname', 'memoryview')
            run.assume(name.total() < 2 ** 32)
            run.assume(wf_components(run, h, name))
        dp = OptInt(run.fresh_bool('dp_none'), run.fresh_int('dp'))
        others, at = digest_facts(h, name, dp, need)
        run.assume(z3.And(others, at))
        total = name.total()
        L = run.fresh_int('iname_len')
        run.assume(L == total + z3.If(z3.And(zbool(cx.it.truth(need)), zbool(dp.isnone)), 34, 0))
        markers[key(self, 'digest_pos')] = dp
        markers[key(self, 'preprocessed_name')] = name
        markers[key(self, 'encoded_length')] = L
        run.ghost['iname.facts'] = dict(name=name, dp=dp, L=L, need=need)
        return simp(1 + tlsize(L) + L)

    def post_assumed(c, cx, result, self, val, markers):
        return {}

    def build(self, i):
        from ndn.encoding import ndn_format_0_3 as nf
        field = nf.InterestPacketValue.name
        comps = [bytes.fromhex(x) for x in i['name']['components_hex']]
        return (field, comps, {'_need_digest##args': bool(i['need_digest'])}), {}
