"""Contract for ndn/app_support/security_v2.new_cert and its wrappers (property C16)."""
import struct
import z3
from ndn.app_support import security_v2 as sv
from ndn.encoding import ndn_format_0_3 as nf
from ndn.encoding.name import Component
from pyvc.zutil import *
from pyvc.contracts import Contract, contract, LoopSpec
from pyvc.run import View, Unsupported
from pyvc.values import SymObj, Opaque, PyExc
from pyvc.symseq import BufSeq
from spec.tlv import *
from contracts.assumed_aio import _M, install_clock
from contracts.fields2 import new_signer
from contracts.packet import wf_outer, signed_ghost, absview

ENC_RAISES = (struct.error, IndexError, ValueError, TypeError)


class DateTok:
    """a datetime: only formatting and time-zone conversion are used; the formatted text is a ghost function of it"""

    def __init__(self, run, label, aware=None, utc_of=None):
        self.run, self.label = run, label
        self.aware = aware
        self.utc_of = utc_of            # the instant this one was converted from

    def getattr_(self, it, name, node):
        if name == 'tzinfo':
            if self.aware is None:
                self.aware = it.run.choose([('naive', True), ('aware', True)], f'{self.label}.tzinfo') == 'aware'
            return Opaque('tzinfo', 'tz') if self.aware else None
        if name == 'astimezone':
            return _M(lambda it_, tz: DateTok(self.run, self.label + '@utc', True, self))
        if name == 'strftime':
            def f(it_, fmt):
                txt = Opaque('text', f'strftime({self.label})')
                txt.d['of'] = self
                txt.d['fmt'] = fmt

                def enc(it2, *a):
                    v = it2.run.alloc(15, 'bytes', it2.run.fresh_row('date'), False)
                    it2.run.ghost.setdefault('cert.formatted', []).append((self, fmt, v))
                    return v
                txt.d['encode'] = _M(enc)
                return txt
            return _M(f)
        raise Unsupported(f'datetime.{name}')


@contract
class new_cert(Contract):
    fn = sv.new_cert
    props = ('C16',)
    doc = ('new_cert: the certificate is exactly one well-formed Data element (06, shortest exact length) = the encoded value '
           'without the unused signature tail; its name is key-name / issuer-id / version(now); Content is the given public key '
           'object, ContentType KEY, FreshnessPeriod 3600000; NotBefore / NotAfter are the yyyymmddThhmmss renderings of the '
           'requested instants taken in UTC; the signer is handed the range from the Name to the SignatureValue element and the '
           'SignatureValue element (real signature length) is the last element')
    raises = {e: (lambda cx, **p: True) for e in ENC_RAISES}
    policy = {'feas_timeout_ms': 300, 'budget_s': 3000}
    tier = 'thorough'          # ~4-7 minutes on an idle machine (the heap terms of the hand-assembled certificate are large);
    #                            the budget leaves room for a busy one (600 s were exhausted once with 20 other jobs running)

    def setup(self, cx):
        run = cx.run
        install_clock(run)
        key_name = BufSeq.fresh(run, 'key_name', 'bytearray')
        run.assume(key_name.total() < 2 ** 16)
        issuer = run.input_buf('issuer_id_component', 'bytearray')
        run.assume(And(zint(issuer.length) >= 2, zint(issuer.length) < 2 ** 16))
        pub = run.input_buf('pub_key', 'bytes')
        run.assume(zint(pub.length) < 2 ** 16)
        signer = new_signer(run)
        run.assume(signer.d['S'] < 2 ** 16)
        return dict(key_name=key_name, issuer_id_component=issuer, pub_key=pub, signer=signer,
                    start_time=DateTok(run, 'start_time'), end_time=DateTok(run, 'end_time'))

    def post(c, cx, result, key_name, issuer_id_component, pub_key, signer, start_time, end_time):
        run = cx.run
        h = cx.heap
        loc = cx.it.top_locals
        cert_name, buf = result
        cv = loc['cert_val']
        out = {}
        # name
        ok = isinstance(cert_name, BufSeq)
        out['name_is_component_list'] = ok
        if ok:
            n = zint(key_name.n)
            out['name_is_keyname_issuer_version'] = And(
                Eq(cert_name.n, n + 2),
                z3.Select(cert_name.cells, n) == zint(issuer_id_component.cell),
                z3.Select(cert_name.starts, n) == zint(issuer_id_component.start))
            ver = cert_name.elem(cx.it, n + 1)
            out['version_component_from_the_clock'] = And(ver.at(h, 0) == 0x36)
            out['packet_name_is_that_name'] = cv.d.get('name') is cert_name
        out['content_is_the_public_key'] = cv.d.get('content') is pub_key
        mi = cv.d.get('meta_info')
        out['content_type_key_and_freshness'] = isinstance(mi, SymObj) and mi.d.get('content_type') == nf.ContentType.KEY \
            and mi.d.get('freshness_period') == 3600000
        # validity
        si = cv.d.get('signature_info')
        vp = si.d.get('validity_period') if isinstance(si, SymObj) else None
        fm = run.ghost.get('cert.formatted', [])
        okv = isinstance(vp, SymObj) and len(fm) == 2
        out['validity_period_present'] = okv
        if okv:
            (d0, f0, v0), (d1, f1, v1) = fm

            def root(d):
                return d.utc_of if d.utc_of is not None else d
            out['not_before_is_start_time_in_utc'] = vp.d.get('not_before') is v0 and root(d0) is start_time and \
                f0 == '%Y%m%dT%H%M%S' and (d0.aware is not True or d0.utc_of is not None)
            out['not_after_is_end_time_in_utc'] = vp.d.get('not_after') is v1 and root(d1) is end_time and \
                f1 == '%Y%m%dT%H%M%S' and (d1.aware is not True or d1.utc_of is not None)
        # wire
        if not isinstance(buf, View):
            out['returns_buffer'] = False
            return out
        out['one_wellformed_data_element'] = wf_outer(h, buf, 6)
        sg = signed_ghost(cx)
        if sg is None:
            out['signer_was_asked_to_sign'] = False
            return out
        contents, hs, vb, r = sg
        okc = isinstance(contents, list) and len(contents) == 1 and isinstance(contents[0], View)
        out['exactly_one_covered_range'] = okc
        if okc:
            cov = contents[0]
            value = loc['value']
            V = absview(value)
            end = simp(zint(cov.start) + zint(cov.length))
            L = zint(buf.length) - 1 - need_at(h, buf, 1)
            out['covered_starts_at_name'] = And(Eq(cov.cell, value.cell), zint(cov.start) == zint(value.start), V.at(hs, cov.start) == 7)
            out['covered_ends_at_signature_value'] = V.at(h, end) == 0x17
            out['signature_value_is_last_and_exact'] = And(tlenc_at(h, V, end + 1, r),
                                                            end + 1 + tlsize(r) + zint(r) == zint(value.start) + L)
            from contracts.name import bytes_equal
            out['certificate_is_the_value_without_unused_tail'] = bytes_equal(h, buf, 1 + need_at(h, buf, 1), h, value, 0, L)
        return out


# ----------------------------------------------------------------------------- the wrappers: self_sign, sign_req, derive_cert
import datetime as _dt                                   # noqa: E402


class Dt:
    """a datetime value in the wrappers: built from now(UTC) / fromisoformat / a given start by + timedelta / replace"""

    def __init__(self, expr, aware=None):
        self.expr = expr                                  # structural: ('now', k) | ('iso', text) | ('given',) | ('plus', Dt, td) | ('utc', Dt) ...
        self.aware = aware                                # None: nobody asked yet whether it carries a time zone

    def __repr__(self):
        return f'<Dt {self.expr}>'

    def same(self, other):
        return isinstance(other, Dt) and _same_expr(self.expr, other.expr)

    def binop_(self, it, op, other, node):
        import ast
        if isinstance(op, ast.Add) and isinstance(other, Td):
            return Dt(('plus', self, other))
        raise Unsupported('datetime arithmetic other than + timedelta')

    def getattr_(self, it, name, node):
        if name == 'year':
            return YearVal()
        if name == 'tzinfo':
            if self.aware is None:
                self.aware = it.run.choose([('naive', True), ('aware', True)], f'{self.expr[0]}.tzinfo') == 'aware'
            return Opaque('tzinfo', 'tz') if self.aware else None
        if name == 'astimezone':
            def astimezone(it_, tz):
                if tz is not _dt.UTC:
                    raise Unsupported('astimezone to another zone than UTC')
                return Dt(('utc', self), True)             # the same instant, expressed in UTC
            return _M(astimezone)
        if name == 'replace':
            def replace(it_, **kw):
                # ValueError when the day does not exist in the target year (29 February)
                if 'day' not in kw and it_.run.branch(it_.run.fresh_bool('no_such_day_in_target_year'), 'replace.invalid_day'):
                    raise PyExc(ValueError, ('day is out of range for month',), getattr(node, 'lineno', None), it_.where())
                return Dt(('replace', self, tuple(sorted((k, _kv(v)) for k, v in kw.items()))))
            return _M(replace)
        raise Unsupported(f'datetime.{name}')


class YearPlus:
    def __init__(self, k):
        self.k = k


def _kv(v):
    return ('year+', v.k) if isinstance(v, YearPlus) else v


def _same_expr(a, b):
    if isinstance(a, Dt) or isinstance(b, Dt):
        return isinstance(a, Dt) and isinstance(b, Dt) and _same_expr(a.expr, b.expr)
    if isinstance(a, Td) or isinstance(b, Td):
        return isinstance(a, Td) and isinstance(b, Td) and a.kw.keys() == b.kw.keys() and all(
            (x is y) or (not is_sym(x) and not is_sym(y) and x == y) for x, y in zip(a.kw.values(), b.kw.values()))
    if isinstance(a, tuple) and isinstance(b, tuple):
        return len(a) == len(b) and all(_same_expr(x, y) for x, y in zip(a, b))
    return a == b if not (is_sym(a) or is_sym(b)) else a is b


class Td:
    def __init__(self, kw):
        self.kw = kw


def _install_dt():
    from pyvc import models
    Bm = models.BUILTIN_MODELS

    def m_now(it, args, kwargs, node):
        n = it.run.ghost.setdefault('dt.now', [])
        d = Dt(('now', len(n), args[0] if args else None))
        n.append(d)
        return d
    Bm[_dt.datetime.now] = m_now
    Bm[_dt.datetime.fromisoformat] = lambda it, a, k, n: Dt(('iso', a[0]))
    Bm[_dt.timedelta] = lambda it, a, k, n: Td(dict(k)) if not a else (_ for _ in ()).throw(Unsupported('positional timedelta'))


_install_dt()


class YearVal:
    """datetime.year: only `year + k` is used"""

    def binop_(self, it, op, other, node):
        import ast
        if isinstance(op, ast.Add) and isinstance(other, int):
            return YearPlus(other)
        raise Unsupported('arithmetic on a year other than + k')


def _new_cert_result(c, cx, key_name, issuer_id_component, pub_key, signer, start_time, end_time):
    r = (Opaque('cert_name', 'certificate name'), Opaque('cert_wire', 'certificate'))
    cx.run.ghost.setdefault('new_cert_calls', []).append(dict(key_name=key_name, issuer=issuer_id_component, pub_key=pub_key,
                                                              signer=signer, start=start_time, end=end_time, result=r))
    return r


new_cert.result = _new_cert_result
new_cert.post_assumed = lambda c, cx, result, **p: {}
new_cert.use_contract_at = lambda c, it, args, kwargs: it.reg.under_proof is not sv.new_cert


@contract
class component_from_str_assumed(Contract):
    fn = Component.from_str
    assumed = True

    def use_contract_at(c, it, args, kwargs):
        return isinstance(args[0], Opaque) and args[0].typ == 'issuer_text'

    def result(c, cx, val):
        r = Opaque('component', 'issuer component')
        r.d['of'] = val
        return r


class _Wrapper(Contract):
    props = ('C16',)
    raises = {e: (lambda cx, **p: True) for e in ENC_RAISES}

    def common(c, cx, result, key_name, pub_key, signer):
        calls = cx.run.ghost.get('new_cert_calls', [])
        out = {'one_certificate_issued': len(calls) == 1}
        if len(calls) != 1:
            return out, None
        k = calls[0]
        out['certificate_returned_as_issued'] = result is k['result']
        out['subject_key_public_key_and_signer_passed_on'] = k['key_name'] is key_name and k['pub_key'] is pub_key and k['signer'] is signer
        return out, k


@contract
class self_sign(_Wrapper):
    fn = sv.self_sign
    doc = ('self_sign(key_name, pub_key, signer): one certificate for this key, public key and signer, issuer component "self", valid '
           'from the epoch until today\'s date twenty years on (28 February when that date does not exist)')

    def setup(self, cx):
        return dict(key_name=Opaque('token', 'key name'), pub_key=Opaque('token', 'public key'), signer=Opaque('token', 'signer'))

    def post(c, cx, result, key_name, pub_key, signer):
        out, k = c.common(cx, result, key_name, pub_key, signer)
        if k is None:
            return out
        out['issuer_is_self'] = k['issuer'] is sv.SELF_COMPONENT
        out['valid_from_the_epoch'] = isinstance(k['start'], Dt) and k['start'].expr == ('iso', '1970-01-01T00:00:00')
        e = k['end']
        now = cx.run.ghost.get('dt.now', [])
        ok = isinstance(e, Dt) and e.expr[0] == 'replace' and len(now) == 1 and e.expr[1] is now[0] and now[0].expr[2] is _dt.UTC
        out['valid_until_now_plus_twenty_years_in_utc'] = ok and e.expr[2] in ((('year', ('year+', 20)),), (('day', 28), ('year', ('year+', 20))))
        return out


@contract
class sign_req(_Wrapper):
    fn = sv.sign_req
    doc = ('sign_req(key_name, pub_key, signer): one certificate request for this key, public key and signer, issuer component '
           '"cert-request", valid from now (UTC) for ten days')

    def setup(self, cx):
        return dict(key_name=Opaque('token', 'key name'), pub_key=Opaque('token', 'public key'), signer=Opaque('token', 'signer'))

    def post(c, cx, result, key_name, pub_key, signer):
        out, k = c.common(cx, result, key_name, pub_key, signer)
        if k is None:
            return out
        out['issuer_is_cert_request'] = k['issuer'] is sv.SIGN_REQ_COMPONENT
        s, e = k['start'], k['end']
        out['valid_from_now_utc'] = isinstance(s, Dt) and s.expr[0] == 'now' and s.expr[2] is _dt.UTC
        out['valid_for_ten_days_from_now'] = isinstance(e, Dt) and e.expr[0] == 'plus' and e.expr[1].expr[0] == 'now' and \
            e.expr[1].expr[2] is _dt.UTC and e.expr[2].kw == {'days': 10}
        return out


@contract
class derive_cert(_Wrapper):
    fn = sv.derive_cert
    doc = ('derive_cert(key_name, issuer_id, pub_key, signer, start_time, expire_sec): one certificate for this key, public key and '
           'signer, issuer component = the given component (a text issuer id is converted with Component.from_str), valid from '
           'start_time for expire_sec seconds')

    def setup(self, cx):
        run = cx.run
        ik = run.choose([('component', True), ('text', True)], 'issuer_id')
        issuer = Opaque('component', 'issuer component') if ik == 'component' else IssuerText('issuer_text', 'issuer text')
        issuer.d['__isinstance__'] = (lambda t: t is str) if ik == 'text' else (lambda t: t in (bytes, bytearray, memoryview, object))
        return dict(key_name=Opaque('token', 'key name'), issuer_id=issuer, pub_key=Opaque('token', 'public key'),
                    signer=Opaque('token', 'signer'), start_time=Dt(('given',)), expire_sec=run.input_int('expire_sec'))

    def post(c, cx, result, key_name, issuer_id, pub_key, signer, start_time, expire_sec):
        out, k = c.common(cx, result, key_name, pub_key, signer)
        if k is None:
            return out
        if isinstance(issuer_id, IssuerText):
            out['text_issuer_id_converted_to_a_component'] = isinstance(k['issuer'], Opaque) and k['issuer'].d.get('of') is issuer_id
        else:
            out['issuer_component_passed_on'] = k['issuer'] is issuer_id
        e = k['end']

        def instant_of_start(d):
            # the given start time itself, or the same instant expressed in UTC
            return d is start_time or (isinstance(d, Dt) and d.expr[0] == 'utc' and d.expr[1] is start_time)
        out['valid_from_start_time'] = instant_of_start(k['start'])
        out['valid_for_expire_sec_seconds'] = isinstance(e, Dt) and e.expr[0] == 'plus' and instant_of_start(e.expr[1]) and \
            list(e.expr[2].kw) == ['seconds'] and e.expr[2].kw['seconds'] is expire_sec
        # "+ timedelta" on a zone-aware datetime moves the WALL CLOCK of that zone; the requested end is the start INSTANT plus the
        # seconds, so the sum is formed on a naive value or on the start expressed in UTC (the two differ across a DST change)
        base = e.expr[1] if isinstance(e, Dt) and e.expr[0] == 'plus' else None
        out['lifetime_added_to_the_instant_not_to_a_zone_wall_clock'] = (base is start_time and start_time.aware is False) or \
            (isinstance(base, Dt) and base.expr[0] == 'utc' and base.expr[1] is start_time)
        return out


class IssuerText(Opaque):
    def isinstance_(self, t):
        return t is str
