"""Contract for ndn/app_support/security_v2.new_cert and its wrappers (property C16)."""
import struct
import z3
from ndn.app_support import security_v2 as sv
from ndn.encoding import ndn_format_0_3 as nf
from ndn.encoding.name import Component
from pyvc.zutil import *
from pyvc.contracts import Contract, contract, LoopSpec
from pyvc.run import View, Unsupported
from pyvc.values import SymObj, Opaque, PyExc
from pyvc.symseq import BufSeq
from spec.tlv import *
from contracts.assumed_aio import _M, install_clock
from contracts.fields2 import new_signer
from contracts.packet import wf_outer, signed_ghost, absview

ENC_RAISES = (struct.error, IndexError, ValueError, TypeError)


class DateTok:
    """a datetime: only formatting and time-zone conversion are used; the formatted text is a ghost function of it"""

    def __init__(self, run, label, aware=None, utc_of=None):
        self.run, self.label = run, label
        self.aware = aware
        self.utc_of = utc_of            # the instant this one was converted from

    def getattr_(self, it, name, node):
        if name == 'tzinfo':
            if self.aware is None:
                self.aware = it.run.choose([('naive', True), ('aware', True)], f'{self.label}.tzinfo') == 'aware'
            return Opaque('tzinfo', 'tz') if self.aware else None
        if name == 'astimezone':
            return _M(lambda it_, tz: DateTok(self.run, self.label + '@utc', True, self))
        if name == 'strftime':
            def f(it_, fmt):
                txt = Opaque('text', f'strftime({self.label})')
                txt.d['of'] = self
                txt.d['fmt'] = fmt

                def enc(it2, *a):
                    v = it2.run.alloc(15, 'bytes', it2.run.fresh_row('date'), False)
                    it2.run.ghost.setdefault('cert.formatted', []).append((self, fmt, v))
                    return v
                txt.d['encode'] = _M(enc)
                return txt
            return _M(f)
        raise Unsupported(f'datetime.{name}')


@contract
class new_cert(Contract):
    fn = sv.new_cert
    props = ('C16',)
    doc = ('new_cert: the certificate is exactly one well-formed Data element (06, shortest exact length) = the encoded value '
           'without the unused signature tail; its name is key-name / issuer-id / version(now); Content is the given public key '
           'object, ContentType KEY, FreshnessPeriod 3600000; NotBefore / NotAfter are the yyyymmddThhmmss renderings of the '
           'requested instants taken in UTC; the signer is handed the range from the Name to the SignatureValue element and the '
           'SignatureValue element (real signature length) is the last element')
    raises = {e: (lambda cx, **p: True) for e in ENC_RAISES}
    policy = {'feas_timeout_ms': 300}
    tier = 'thorough'          # ~4 minutes: the heap terms of the hand-assembled certificate are large

    def setup(self, cx):
        run = cx.run
        install_clock(run)
        key_name = BufSeq.fresh(run, 'key_name', 'bytearray')
        run.assume(key_name.total() < 2 ** 16)
        issuer = run.input_buf('issuer_id_component', 'bytearray')
        run.assume(And(zint(issuer.length) >= 2, zint(issuer.length) < 2 ** 16))
        pub = run.input_buf('pub_key', 'bytes')
        run.assume(zint(pub.length) < 2 ** 16)
        signer = new_signer(run)
        run.assume(signer.d['S'] < 2 ** 16)
        return dict(key_name=key_name, issuer_id_component=issuer, pub_key=pub, signer=signer,
                    start_time=DateTok(run, 'start_time'), end_time=DateTok(run, 'end_time'))

    def post(c, cx, result, key_name, issuer_id_component, pub_key, signer, start_time, end_time):
        run = cx.run
        h = cx.heap
        loc = cx.it.top_locals
        cert_name, buf = result
        cv = loc['cert_val']
        out = {}
        # name
        ok = isinstance(cert_name, BufSeq)
        out['name_is_component_list'] = ok
        if ok:
            n = zint(key_name.n)
            out['name_is_keyname_issuer_version'] = And(
                Eq(cert_name.n, n + 2),
                z3.Select(cert_name.cells, n) == zint(issuer_id_component.cell),
                z3.Select(cert_name.starts, n) == zint(issuer_id_component.start))
            ver = cert_name.elem(cx.it, n + 1)
            out['version_component_from_the_clock'] = And(ver.at(h, 0) == 0x36)
            out['packet_name_is_that_name'] = cv.d.get('name') is cert_name
        out['content_is_the_public_key'] = cv.d.get('content') is pub_key
        mi = cv.d.get('meta_info')
        out['content_type_key_and_freshness'] = isinstance(mi, SymObj) and mi.d.get('content_type') == nf.ContentType.KEY \
            and mi.d.get('freshness_period') == 3600000
        # validity
        si = cv.d.get('signature_info')
        vp = si.d.get('validity_period') if isinstance(si, SymObj) else None
        fm = run.ghost.get('cert.formatted', [])
        okv = isinstance(vp, SymObj) and len(fm) == 2
        out['validity_period_present'] = okv
        if okv:
            (d0, f0, v0), (d1, f1, v1) = fm

            def root(d):
                return d.utc_of if d.utc_of is not None else d
            out['not_before_is_start_time_in_utc'] = vp.d.get('not_before') is v0 and root(d0) is start_time and \
                f0 == '%Y%m%dT%H%M%S' and (d0.aware is not True or d0.utc_of is not None)
            out['not_after_is_end_time_in_utc'] = vp.d.get('not_after') is v1 and root(d1) is end_time and \
                f1 == '%Y%m%dT%H%M%S' and (d1.aware is not True or d1.utc_of is not None)
        # wire
        if not isinstance(buf, View):
            out['returns_buffer'] = False
            return out
        out['one_wellformed_data_element'] = wf_outer(h, buf, 6)
        sg = signed_ghost(cx)
        if sg is None:
            out['signer_was_asked_to_sign'] = False
            return out
        contents, hs, vb, r = sg
        okc = isinstance(contents, list) and len(contents) == 1 and isinstance(contents[0], View)
        out['exactly_one_covered_range'] = okc
        if okc:
            cov = contents[0]
            value = loc['value']
            V = absview(value)
            end = simp(zint(cov.start) + zint(cov.length))
            L = zint(buf.length) - 1 - need_at(h, buf, 1)
            out['covered_starts_at_name'] = And(Eq(cov.cell, value.cell), zint(cov.start) == zint(value.start), V.at(hs, cov.start) == 7)
            out['covered_ends_at_signature_value'] = V.at(h, end) == 0x17
            out['signature_value_is_last_and_exact'] = And(tlenc_at(h, V, end + 1, r),
                                                            end + 1 + tlsize(r) + zint(r) == zint(value.start) + L)
            from contracts.name import bytes_equal
            out['certificate_is_the_value_without_unused_tail'] = bytes_equal(h, buf, 1 + need_at(h, buf, 1), h, value, 0, L)
        return out
