"""Contracts for the stream receive path (property C06): tlv_var.read_tl_num_from_stream and StreamFace.run.

The byte stream is a ghost byte string S with a read cursor; ASSUMED contract of asyncio.StreamReader.readexactly(n):
the next n bytes and the cursor advanced by n, or IncompleteReadError when fewer are left (the stream is then at its
end) - independent of how the bytes arrived in reads; a ConnectionResetError may be raised by any read.
io.BytesIO is a list of written chunks; getvalue() is their concatenation."""
import asyncio
import io
import struct
import z3
from ndn.encoding import tlv_var
from ndn.transport import stream_face as sf
from pyvc.zutil import *
from pyvc.contracts import Contract, contract, LoopSpec
from pyvc.run import View, Unsupported
from pyvc.values import SymObj, Opaque, PyExc, CoroVal
from contracts.assumed_aio import _M
from contracts.name import bytes_equal
from spec.tlv import tlval_at, need_at


class Stream:
    def __init__(self, run, resets=True):
        self.run = run
        self.S = run.input_buf('stream', 'bytes')
        self.pos = 0
        self.resets = resets
        self.reads = 0

    def left(self):
        return simp(zint(self.S.length) - zint(self.pos))

    def getattr_(self, it, name, node):
        if name == 'read':
            # ASSUMED StreamReader.read(n): at least one and at most n of the bytes that are left (none only at the end)
            def read(it_, n=-1):
                def thunk():
                    run = it_.run
                    k = run.fresh_int('short_read')
                    left = self.left()
                    run.assume(z3.And(k >= 0, k <= left, z3.Implies(left > 0, k >= 1)))
                    if not (isinstance(n, int) and n < 0):
                        run.assume(k <= zint(n))
                    run.inputs.append(('short_read', 'int', k))
                    v = View(self.S.cell, simp(zint(self.S.start) + zint(self.pos)), simp(k), 'bytes', False)
                    self.pos = simp(zint(self.pos) + k)
                    return v
                return CoroVal(thunk, 'read')
            return _M(read)
        if name != 'readexactly':
            raise Unsupported(f'StreamReader.{name}')

        def readexactly(it_, n):
            def thunk():
                run = it_.run
                self.reads += 1
                if self.resets and run.branch(run.fresh_bool('connection_reset'), 'reader.reset'):
                    raise PyExc(ConnectionResetError, ('reset by peer',), getattr(node, 'lineno', None), it_.where())
                if run.branch(zint(self.pos) + zint(n) <= zint(self.S.length), 'reader.enough_bytes'):
                    v = View(self.S.cell, simp(zint(self.S.start) + zint(self.pos)), simp(zint(n)), 'bytes', False)
                    self.pos = simp(zint(self.pos) + zint(n))
                    return v
                self.pos = self.S.length
                raise PyExc(asyncio.IncompleteReadError, (b'', n), getattr(node, 'lineno', None), it_.where())
            return CoroVal(thunk, 'readexactly')
        return _M(readexactly)


class Bio:
    def __init__(self):
        self.parts = []

    def getattr_(self, it, name, node):
        if name == 'write':
            def write(it_, v):
                if not isinstance(v, View):
                    raise Unsupported('BytesIO.write of a non-bytes value')
                self.parts.append(v)
                return v.length
            return _M(write)
        if name == 'getvalue':
            def getvalue(it_):
                if not self.parts:
                    return it_.run.alloc_zero(0, 'bytes')
                out = self.parts[0]
                for p in self.parts[1:]:
                    out = it_.concat(out, p)
                return out
            return _M(getvalue)
        raise Unsupported(f'BytesIO.{name}')


def _install():
    from pyvc import models
    models.BUILTIN_MODELS[io.BytesIO] = lambda it, a, k, n: Bio()


_install()


@contract
class read_tl_num_from_stream(Contract):
    fn = tlv_var.read_tl_num_from_stream
    props = ('C06', 'C07')
    doc = ('read_tl_num_from_stream: consumes exactly the bytes of one variable-size number (1, 3, 5 or 9 as marked by its first '
           'byte), copies exactly those bytes to the BytesIO and returns the number they encode; if the stream ends inside the '
           'number it raises IncompleteReadError (ConnectionResetError when the connection is reset), nothing else')
    raises = {asyncio.IncompleteReadError: lambda cx, **p: True, ConnectionResetError: lambda cx, **p: True}

    def setup(self, cx):
        st = Stream(cx.run)
        p0 = cx.run.input_int('pos')
        cx.run.assume(z3.And(p0 >= 0, p0 <= st.S.length))
        st.pos = p0
        bio = Bio()
        cx.run.ghost['rs'] = dict(st=st, p0=p0, bio=bio)
        return dict(reader=st, bio=bio)

    def build(self, i):
        """a real asyncio.StreamReader holding the rest of the stream (end of stream after it) and a real BytesIO"""
        import warnings
        data = bytes.fromhex(i['stream']['hex'])[i.get('pos', 0):]
        with warnings.catch_warnings():
            warnings.simplefilter('ignore')
            loop = asyncio.new_event_loop()
            rd = asyncio.StreamReader(loop=loop)
        rd.feed_data(data)
        rd.feed_eof()
        return (rd, io.BytesIO()), {}

    def post(c, cx, result, reader, bio):
        g = cx.run.ghost['rs']
        st, p0 = g['st'], g['p0']
        h = cx.run.heap
        n = need_at(h, st.S, p0)
        copied = simp(sum(zint(p.length) for p in bio.parts)) if bio.parts else 0
        contiguous = And(*[And(Eq(p.cell, st.S.cell), Eq(zint(p.start), zint(st.S.start) + zint(p0) + sum(zint(q.length) for q in bio.parts[:k])))
                           for k, p in enumerate(bio.parts)]) if bio.parts else True
        return {'consumes_exactly_one_number': Eq(zint(st.pos), zint(p0) + n),
                'returns_the_number_encoded_there': Eq(zint(result), tlval_at(h, st.S, p0)),
                'copies_exactly_those_bytes': And(Eq(copied, n), contiguous)}

    def xpost(c, cx, exc, reader, bio):
        g = cx.run.ghost['rs']
        st, p0 = g['st'], g['p0']
        if exc.cls is asyncio.IncompleteReadError:
            h = cx.run.heap
            return {'only_when_the_stream_ends_inside_the_number': Or(zint(p0) >= zint(st.S.length),
                                                                      zint(p0) + need_at(h, st.S, p0) > zint(st.S.length))}
        return {}


class Callback:
    def __init__(self):
        self.calls = []

    def call_(self, it, args, kwargs, node):
        rec = (args, it.run.heap)

        def thunk():
            return None
        self.calls.append(rec)
        return CoroVal(thunk, 'face.callback')


class Writer:
    def __init__(self):
        self.closed = 0

    def truth(self, it):
        return True

    def getattr_(self, it, name, node):
        if name == 'close':
            def close(it_):
                self.closed += 1
            return _M(close)
        raise Unsupported(f'StreamWriter.{name}')


def _run_inv(it, env, g):
    d = it.run.ghost['sr']
    st = d['st']
    return {'cursor_inside_the_stream': And(zint(st.pos) >= 0, zint(st.pos) <= zint(st.S.length))}


def _run_havoc(it, env, g):
    run = it.run
    d = run.ghost['sr']
    st, self_ = d['st'], env['self']
    st.pos = run.fresh_int('cursor')
    self_.d['running'] = run.fresh_bool('running')
    self_.d['writer'] = d['writer'] if run.branch(run.fresh_bool('writer_present'), 'writer.present') else None
    d['cb'].calls.clear()
    d['writer'].closed = 0
    d['pos_at_head'] = st.pos
    d['writer_at_head'] = self_.d['writer']
    return self_


def _run_var(it, env, g):
    d = it.run.ghost['sr']
    st = d['st']
    return simp(2 * (zint(st.S.length) - zint(st.pos)) + z3.If(env['self'].d['running'] if is_sym(env['self'].d['running']) else z3.BoolVal(bool(env['self'].d['running'])), 1, 0))


def _run_step(it, pre, env, g):
    """one iteration: either exactly one complete packet is handed over and the cursor moves to the next packet, or the
    stream ended / was reset, nothing is handed over and the face shuts down"""
    run = it.run
    d = run.ghost['sr']
    st, cb, self_ = d['st'], d['cb'], env['self']
    p0 = d['pos_at_head']
    h = run.heap
    running = self_.d['running']
    if len(cb.calls) == 1:
        (typ, buf), hh = cb.calls[0]
        tn = need_at(h, st.S, p0)
        ln_at = zint(p0) + tn
        L = tlval_at(h, st.S, ln_at)
        total = tn + need_at(h, st.S, ln_at) + L
        ok_buf = isinstance(buf, View)
        return {'one_complete_packet_handed_over': And(ok_buf, Eq(zint(buf.length), total) if ok_buf else False,
                                                       bytes_equal(hh, buf, 0, h, st.S, p0, total) if ok_buf else False),
                'packet_type_reported': Eq(zint(typ), tlval_at(h, st.S, p0)),
                'cursor_moves_to_the_next_packet': Eq(zint(st.pos), zint(p0) + total),
                'face_keeps_running': running is True or (is_sym(running) and running)}
    return {'nothing_handed_over_for_an_incomplete_packet': len(cb.calls) == 0,
            'face_shuts_down': running is False,
            'writer_closed_once_if_any': (d['writer'].closed == 1 and self_.d['writer'] is None) if d['writer_at_head'] is not None
            else d['writer'].closed == 0}


@contract
class stream_run(Contract):
    fn = sf.StreamFace.run
    props = ('C06',)
    doc = ('StreamFace.run, for ANY byte stream however it is split into reads (readexactly contract): every iteration hands over exactly '
           'one complete packet - type, and a buffer equal to the bytes from the packet\'s first byte to its last - and continues at the '
           'next packet; when the stream ends inside a packet (or the connection is reset) nothing is handed over, the face shuts '
           'down (writer closed once) and the loop ends; it terminates (variant: bytes left, then running) and raises nothing')
    raises = {}
    loops = {1: LoopSpec(_run_inv, var=_run_var, havoc={'self': _run_havoc}, step=_run_step)}

    def setup(self, cx):
        run = cx.run
        st = Stream(run)
        cb = Callback()
        w = Writer()
        wk = run.choose([('writer', True), ('writer=None', True)], 'writer')
        self_ = SymObj(sf.UnixFace, dict(reader=st, writer=w if wk == 'writer' else None, running=run.input_bool('running'), callback=cb))
        run.ghost['sr'] = dict(st=st, cb=cb, writer=w, pos_at_head=0, writer_at_head=self_.d['writer'])
        return dict(self=self_)

    def post(c, cx, result, self):
        r = self.d['running']
        return {'stops_only_when_not_running': (r is False) or (is_sym(r) and Not(r))}
