"""Contracts for ndn/security/validator/known_key_validator.py (properties C02, C14): verify_ecdsa / verify_rsa /
verify_hmac / verify_ed25519 hand the cryptographic verifier (ASSUMED: Cryptodome DSS / pkcs1_15 / eddsa / HMAC, SHA256)
the hash over EVERY covered block, in order, once, the packet's signature value and the given key, and return its verdict;
the per-algorithm checkers refuse other signature types; KnownChecker.from_key's validator insists on a key locator under
the configured key name."""
import z3
from Cryptodome.Hash import SHA256, HMAC
from Cryptodome.PublicKey import ECC, RSA
from Cryptodome.Signature import DSS, pkcs1_15, eddsa
from ndn.security.validator import known_key_validator as kk
from ndn.encoding import SignatureType
from ndn.encoding.name import Name
from pyvc.zutil import *
from pyvc.contracts import Contract, contract, LoopSpec
from pyvc.run import View, Unsupported
from pyvc.values import SymObj, Opaque, PyExc
from pyvc.symseq import BufSeq
from pyvc.models import Sha256Obj
from contracts.assumed_aio import _M
from contracts.digestcheck import Fed, fed_prefix


def W(it):
    return it.run.ghost.setdefault('vf', dict(hashes=[], verifiers=[], verdicts=[], joins=[]))


class HashM(Sha256Obj):
    """SHA256.new() / HMAC.new(): ghost list of the blocks fed"""

    def __init__(self, kind, key=None):
        self.blocks = []
        self.kind, self.key = kind, key

    def getattr_(self, it, name, node):
        if name == 'update':
            def update(it_, v):
                if not isinstance(v, View):
                    raise Unsupported('hash update with a non-bytes value')
                self.blocks.append((v, it_.run.heap))
            return _M(update)
        if name == 'verify' and self.kind == 'hmac':
            def verify(it_, sig):
                return _verdict(it_, ('hmac', self.key), self, sig, node)
            return _M(verify)
        raise Unsupported(f'hash.{name}')


def _verdict(it, verifier, h, sig, node):
    w = W(it)
    tag = it.run.choose([('accepts', True), ('rejects', True)], 'crypto verdict')
    w['verdicts'].append((verifier, h, sig, tag))
    if tag == 'rejects':
        raise PyExc(ValueError, ('signature is not authentic',), getattr(node, 'lineno', None), it.where())
    return None


class VerifierM:
    def __init__(self, kind, key, args):
        self.kind, self.key, self.args = kind, key, args

    def getattr_(self, it, name, node):
        if name == 'verify':
            return _M(lambda it_, h, sig: _verdict(it_, (self.kind, self.key) + tuple(self.args), h, sig, node))
        raise Unsupported(f'verifier.{name}')


class Joined:
    def __init__(self, seq):
        self.seq = seq


def _install():
    from pyvc import models
    R = models.REAL_FUNCTION_MODELS
    R[SHA256.new] = lambda it, a, k, n: HashM('sha256')
    R[HMAC.new] = lambda it, a, k, n: HashM('hmac', a[0]) if k.get('digestmod') is SHA256 else (_ for _ in ()).throw(Unsupported('HMAC digest'))
    R[DSS.new] = lambda it, a, k, n: VerifierM('ecdsa', a[0], a[1:])
    R[pkcs1_15.new] = lambda it, a, k, n: VerifierM('rsa', a[0], a[1:])
    R[eddsa.new] = lambda it, a, k, n: VerifierM('ed25519', a[0], a[1:])

    def bytes_join(it, sep, parts):
        if isinstance(parts, BufSeq):
            j = Joined(parts)
            W(it)['joins'].append(j)
            return j
        raise Unsupported('bytes.join of this value')
    models.BYTES_JOIN_HOOK = bytes_join
    old = models.BUILTIN_MODELS[bytes]

    def m_bytes(it, args, kwargs, node):
        if args and isinstance(args[0], (Opaque,)) and args[0].typ in ('key_bits',):
            return args[0]
        return old(it, args, kwargs, node)
    models.BUILTIN_MODELS[bytes] = m_bytes


_install()


def _inv(it, env, g):
    k, ok = fed_prefix(env['h'], g['seq'])
    return {'exactly_the_blocks_so_far_were_hashed_in_order': And(ok, Eq(zint(k), zint(g['i'])))}


def _havoc_h(it, env, g):
    old = env['h']
    s = HashM(old.kind, old.key)
    s.blocks = [(Fed(g['seq'], it.run.fresh_int('fed')), None)]
    return s


LOOPS = {1: LoopSpec(_inv, havoc={'h': _havoc_h})}


def mk_sig(cx, st=None):
    run = cx.run
    vk = run.choose([('value', True), ('value=None', True)], 'signature value')
    value = run.input_buf('value', 'memoryview') if vk == 'value' else None
    covered = run.input_bufseq('covered', 'memoryview')
    d = dict(signature_info=None, signature_covered_part=covered, signature_value_buf=value, digest_covered_part=None, digest_value_buf=None)
    if st is not None:
        d['signature_info'] = SymObj(object, dict(signature_type=st, key_locator=None))
    return SymObj(object, d), covered, value


def verdict_clauses(cx, result, covered, value, kind, key, hashed=True, value_required=True):
    w = W(cx.it)
    out = {'returns_bool': result is True or result is False}
    if value is None and value_required:
        out['missing_signature_value_refused_without_crypto'] = result is False and w['verdicts'] == []
        return out
    out['crypto_verifier_asked_once'] = len(w['verdicts']) == 1
    if len(w['verdicts']) != 1:
        return out
    ver, h, sig, tag = w['verdicts'][0]
    out['verdict_is_the_verifiers'] = (result is True) == (tag == 'accepts')
    out['right_algorithm_and_key'] = ver[0] == kind and ver[1] is key
    if hashed:
        kk_, ok = fed_prefix(h, covered)
        out['hash_is_over_every_covered_block_in_order'] = And(ok, Eq(zint(kk_), zint(covered.n)))
    else:
        out['message_is_the_concatenation_of_the_covered_blocks'] = isinstance(h, Joined) and h.seq is covered
    if value is not None:
        same = isinstance(sig, View) and And(Eq(zint(sig.length), zint(value.length)))
        out['signature_is_the_packets_value_buffer'] = same
    return out


class _V(Contract):
    props = ('C02', 'C14')
    raises = {}
    kind = None
    loops = LOOPS

    def setup(self, cx):
        sig, covered, value = mk_sig(cx)
        key = Opaque('key', 'public key')
        cx.run.ghost['vfi'] = (covered, value, key)
        return dict(pub_key=key, sig_ptrs=sig)

    def post(c, cx, result, pub_key, sig_ptrs):
        covered, value, key = cx.run.ghost['vfi']
        return verdict_clauses(cx, result, covered, value, c.kind, key)


@contract
class verify_ecdsa(_V):
    fn = kk.verify_ecdsa
    kind = 'ecdsa'
    doc = ('verify_ecdsa, ANY number of covered blocks: without a signature value False at once; otherwise the DSS (fips-186-3, DER) '
           'verifier for exactly this key is asked once about SHA-256 over every covered block, in order, once, and the packet\'s '
           'signature value; True iff it accepts; nothing is raised')


@contract
class verify_rsa(_V):
    fn = kk.verify_rsa
    kind = 'rsa'
    doc = 'verify_rsa: same contract with the PKCS#1 v1.5 verifier'


@contract
class verify_hmac(_V):
    fn = kk.verify_hmac
    kind = 'hmac'
    doc = ('verify_hmac: HMAC-SHA256 keyed with exactly the given key over every covered block, in order, once, compared with the '
           'packet\'s signature value; True iff they match; nothing is raised')

    def setup(self, cx):
        sig, covered, value = mk_sig(cx)
        key = Opaque('key', 'hmac key')
        cx.run.ghost['vfi'] = (covered, value, key)
        return dict(key=key, sig_ptrs=sig)

    def post(c, cx, result, key, sig_ptrs):
        covered, value, k = cx.run.ghost['vfi']
        out = verdict_clauses(cx, result, covered, value, 'hmac', k, value_required=False)
        w = W(cx.it)
        if len(w['verdicts']) == 1:
            out['compared_with_the_packets_signature_value'] = w['verdicts'][0][2] is value
            out.pop('signature_is_the_packets_value_buffer', None)
        return out


@contract
class verify_ed25519(_V):
    fn = kk.verify_ed25519
    kind = 'ed25519'
    loops = {}
    doc = ('verify_ed25519: without a signature value False at once; otherwise the rfc8032 verifier for this key is asked once about '
           'the concatenation of the covered blocks (pure EdDSA, no pre-hash) and the packet\'s signature value; True iff it accepts')

    def post(c, cx, result, pub_key, sig_ptrs):
        covered, value, key = cx.run.ghost['vfi']
        return verdict_clauses(cx, result, covered, value, 'ed25519', key, hashed=False)


# ----------------------------------------------------------------------------- the per-algorithm checkers and from_key's validator
import contracts.cascade as _cas                                       # noqa: E402,F401  (models of import_key / verify_* at call sites)


class _Checker(Contract):
    props = ('C02', 'C14')
    raises = {ValueError: lambda cx, **p: True}
    want_type = None
    kind = None
    cls_ = None

    def setup(self, cx):
        run = cx.run
        tk = run.choose([('matching type', True), ('other type', True)], 'signature type')
        st = self.want_type if tk == 'matching type' else run.input_int('signature_type')
        if tk == 'other type':
            run.assume(st != int(self.want_type))
        sig = SymObj(object, dict(signature_info=SymObj(object, dict(signature_type=st, key_locator=None)),
                                  signature_covered_part=None, signature_value_buf=None))
        bits = _cas.KeyBits('key bits')
        run.ghost['ckr'] = (tk, bits, sig)
        return dict(cls=self.cls_, pub_key_bits=bits, sig_ptrs=sig)

    def post(c, cx, result, cls, pub_key_bits, sig_ptrs):
        tk, bits, sig = cx.run.ghost['ckr']
        calls = cx.run.ghost.get('verify_calls', [])
        if tk != 'matching type':
            return {'other_signature_types_refused_without_crypto': result is False and calls == []}
        ok = len(calls) == 1 and calls[0][0] == c.kind
        out = {'the_matching_verifier_is_asked_once': ok}
        if ok:
            kind, key, s, b = calls[0]
            out['verdict_is_the_verifiers_on_this_packet'] = (result is b) and s is sig
            out['key_is_imported_from_the_given_bits'] = (key is bits) or (isinstance(key, tuple) and key[-1] is bits)
        return out


@contract
class ecc_checker_verify(_Checker):
    fn = kk.EccChecker._verify
    cls_, want_type, kind = kk.EccChecker, SignatureType.SHA256_WITH_ECDSA, 'ecdsa'
    doc = ('EccChecker._verify: a packet that does not announce SHA256-with-ECDSA is refused without any cryptography; otherwise the key '
           'is imported from exactly the given bits and verify_ecdsa decides on exactly this packet (a key that cannot be imported '
           'raises ValueError)')


@contract
class rsa_checker_verify(_Checker):
    fn = kk.RsaChecker._verify
    cls_, want_type, kind = kk.RsaChecker, SignatureType.SHA256_WITH_RSA, 'rsa'
    doc = 'RsaChecker._verify: same contract for SHA256-with-RSA / verify_rsa'


@contract
class hmac_checker_verify(_Checker):
    fn = kk.HmacChecker._verify
    cls_, want_type, kind = kk.HmacChecker, SignatureType.HMAC_WITH_SHA256, 'hmac'
    doc = 'HmacChecker._verify: same contract for HMAC-with-SHA256 / verify_hmac keyed with exactly the given bits'
    raises = {}


class NameT:
    def __init__(self, label, empty=False):
        self.label, self.empty = label, empty

    def truth(self, it):
        return not self.empty


@contract
class is_prefix_tok(Contract):
    fn = Name.is_prefix
    assumed = True

    def use_contract_at(c, it, args, kwargs):
        return isinstance(args[0], NameT)

    def result(c, cx, lhs, rhs):
        b = cx.run.fresh_bool('key_name_is_prefix_of_locator')
        cx.run.ghost.setdefault('isprefix', []).append((lhs, rhs, b))
        return b


class ClsM:
    def __init__(self):
        self.calls = []

    def getattr_(self, it, name, node):
        if name == '_verify':
            def f(it_, bits, sig):
                b = it_.run.fresh_bool('signature_verifies')
                self.calls.append((bits, sig, b))
                return b
            return _M(f)
        raise Unsupported(f'checker class .{name}')


@contract
class from_key_validator(Contract):
    fn = kk.KnownChecker.from_key
    nested = 'validator'
    props = ('C02', 'C05', 'C14')
    doc = ('the validator built by KnownChecker.from_key(key_name, key_bits): a packet without signature info, key locator or locator '
           'name is refused; so is one whose key locator is not under the configured key name; otherwise the verdict is the '
           'checker\'s _verify on the configured key bits and exactly this packet; nothing is raised by the flow itself')
    raises = {ValueError: lambda cx, **p: False}

    def setup(self, cx):
        run = cx.run
        lk = run.choose([('no signature info', True), ('no key locator', True), ('locator without name', True), ('empty locator name', True),
                         ('locator', True)], 'locator')
        loc = NameT('locator name', empty=(lk == 'empty locator name')) if lk in ('locator', 'empty locator name') else None
        si = None if lk == 'no signature info' else SymObj(object, dict(
            key_locator=None if lk == 'no key locator' else SymObj(object, dict(name=loc))))
        sig = SymObj(object, dict(signature_info=si))
        run.ghost['fk'] = dict(lk=lk, loc=loc, cls=ClsM(), key_name=NameT('configured key name'), bits=Opaque('key_bits', 'configured key bits'),
                               sig=sig)
        return dict(_name=Opaque('token', 'packet name'), sig_ptrs=sig)

    def closure(self, cx):
        g = cx.run.ghost['fk']
        return dict(cls=g['cls'], key_name=g['key_name'], pub_key_bits=g['bits'])

    def post(c, cx, result, _name, sig_ptrs):
        g = cx.run.ghost['fk']
        cls = g['cls']
        ip = cx.run.ghost.get('isprefix', [])
        if g['lk'] != 'locator':
            return {'packet_without_usable_key_locator_refused': result is False and cls.calls == [] and ip == []}
        out = {'locator_compared_with_the_configured_key_name': len(ip) == 1 and ip[0][0] is g['key_name'] and ip[0][1] is g['loc']}
        if len(ip) == 1:
            under = ip[0][2]
            if cls.calls:
                bits, sig, b = cls.calls[0]
                out['verdict_is_the_checkers_on_the_configured_key_and_this_packet'] = And(under, result is b, bits is g['bits'] and
                                                                                         sig is sig_ptrs and len(cls.calls) == 1)
            else:
                out['locator_outside_the_key_name_refused'] = And(Not(under), result is False)
        return out


@contract
class ed_checker_verify(_Checker):
    fn = kk.Ed25519Checker._verify
    cls_, want_type, kind = kk.Ed25519Checker, SignatureType.ED25519, 'ed25519'
    doc = ('Ed25519Checker._verify: a packet that does not announce Ed25519 is refused without any cryptography; otherwise the key is '
           'imported from the given bits, a key that is not an ECC key is refused, and verify_ed25519 decides on exactly this packet')

    def post(c, cx, result, cls, pub_key_bits, sig_ptrs):
        tk, bits, sig = cx.run.ghost['ckr']
        calls = cx.run.ghost.get('verify_calls', [])
        if tk != 'matching type':
            return {'other_signature_types_refused_without_crypto': result is False and calls == []}
        if not calls:
            return {'non_ecc_key_refused': result is False}
        kind, key, s, b = calls[0]
        return {'the_matching_verifier_is_asked_once': len(calls) == 1 and kind == 'ed25519',
                'verdict_is_the_verifiers_on_this_packet': (result is b) and s is sig,
                'key_is_imported_from_the_given_bits': isinstance(key, tuple) and key[-1] is bits}


def _install_ed():
    from pyvc import models
    models.REAL_FUNCTION_MODELS[kk.verify_ed25519] = _cas._verify_model('ed25519')
    old = models.BUILTIN_MODELS[isinstance] if isinstance in models.BUILTIN_MODELS else None


_install_ed()


@contract
class from_cert(Contract):
    fn = kk.KnownChecker.from_cert
    props = ('C14', 'C02')
    doc = ('KnownChecker.from_cert(certificate): the validator is built (from_key) for the key name = certificate name without its last '
           'two components and the key bits = the certificate\'s content; decoding errors of the certificate propagate')
    raises = {e: (lambda cx, **p: True) for e in (ValueError, IndexError, TypeError)}

    def setup(self, cx):
        run = cx.run
        calls = []
        run.ghost['fc'] = calls

        class ClsF:
            def getattr_(self_, it, name, node):
                if name == 'from_key':
                    def f(it_, key_name, key_bits):
                        v = Opaque('validator', 'validator')
                        calls.append((key_name, key_bits, v))
                        return v
                    return _M(f)
                raise Unsupported(f'checker class .{name}')
        return dict(cls=ClsF(), certificate=Opaque('wire', 'certificate wire'))

    def post(c, cx, result, cls, certificate):
        calls = cx.run.ghost['fc']
        pc = cx.run.ghost.get('fc.parsed')
        ok = len(calls) == 1 and pc is not None
        out = {'one_validator_built_and_returned': ok and result is calls[0][2]}
        if ok:
            kn, kb, _ = calls[0]
            out['key_name_is_the_certificate_name_without_issuer_and_version'] = isinstance(kn, tuple) and kn == ('name[:-2]', pc)
            out['key_bits_are_the_certificate_content'] = kb is pc.d['content']
        return out


class CertName:
    def __init__(self, cert):
        self.cert = cert

    def getslice(self, it, lo, hi, node):
        if lo is None and hi == -2:
            return ('name[:-2]', self.cert)
        raise Unsupported('certificate name slice other than [:-2]')


@contract
class parse_certificate_summary(Contract):
    fn = kk.parse_certificate
    assumed = True
    raises = {e: (lambda cx, **p: True) for e in (ValueError, IndexError)}

    def use_contract_at(c, it, args, kwargs):
        return 'fc' in it.run.ghost

    def result(c, cx, wire):
        o = Opaque('cert', 'parsed certificate')
        o.d['content'] = Opaque('key_bits', 'certificate content')
        o.d['name'] = CertName(o)
        cx.run.ghost['fc.parsed'] = o
        return o
