"""Contracts for ndn/client_conf.py (property C20): read_client_conf layering + resolve_location, default_face,
default_keychain.  Text values are opaque tokens (Str): the proof is over ALL values; the file system, the environment,
ConfigParser, urlparse and os.path are ASSUMED interfaces modelled by ghost state (Env)."""
import os
import z3
from configparser import ConfigParser
from urllib.parse import urlparse
from ndn import client_conf as cc
from ndn.platform import Platform
from ndn.platform.linux import Linux
from ndn.transport.stream_face import UnixFace, TcpFace
from ndn.transport.udp_face import UdpFace
from ndn.security import TpmFile, KeychainSqlite3
from pyvc.zutil import *
from pyvc.contracts import Contract, contract
from pyvc.run import Unsupported
from pyvc.values import SymObj, Opaque, PyExc, OptInt
from contracts.assumed_aio import _M


class Str:
    """an arbitrary text value.  empty: python bool or z3 Bool; parts: how it splits at its first ':' (None: no colon)"""
    opaque_value = True          # stands for an unknown value of a library type: foreign contracts do not know it

    def __init__(self, label, empty=False, parts=None):
        self.label, self.empty, self.parts = label, empty, parts

    def __repr__(self):
        return f'<Str {self.label}>'

    def truth(self, it):
        return Not(self.empty) if not isinstance(self.empty, bool) else (not self.empty)

    def split_parts(self, run):
        """[self] when the text has no colon, else (scheme, loc); decided once per value, when first asked"""
        if self.parts == 'lazy':
            k = run.choose([('no colon', True), ('scheme:', True), ('scheme:loc', True)], f'shape of {self.label}')
            self.parts = None if k == 'no colon' else (Str(self.label + '.scheme', empty=run.fresh_bool('empty_scheme')),
                                                       Str(self.label + '.loc', empty=(k == 'scheme:')))
        return (self,) if self.parts is None else self.parts

    def isinstance_(self, t):
        try:
            return issubclass(str, t)
        except TypeError:
            return False

    def compare(self, it, op, other, node):
        import ast
        r = other is self
        return r if isinstance(op, ast.Eq) else (not r)

    def rbinop_(self, it, op, left, node):
        return Str(f'({left!r}+{self.label})')

    def binop_(self, it, op, right, node):
        return Str(f'({self.label}+{right!r})')

    def getattr_(self, it, name, node):
        if name == 'split':
            def split(it_, sep, maxsplit=-1):
                if sep != ':' or maxsplit != 1:
                    raise Unsupported('split other than (":", 1)')
                return list(self.split_parts(it_.run))
            return _M(split)
        raise Unsupported(f'str.{name}')


class Joined:
    """':'.join((scheme, loc)) / os.path.join(a, b) / dirname(p) of tokens: structural values compared structurally"""

    def __init__(self, kind, *parts):
        self.kind, self.parts = kind, parts

    def __repr__(self):
        return f'<{self.kind} {self.parts}>'

    def same(self, other):
        return isinstance(other, Joined) and self.kind == other.kind and len(self.parts) == len(other.parts) and \
            all(_same(a, b) for a, b in zip(self.parts, other.parts))

    def truth(self, it):
        return True


def _same(a, b):
    if isinstance(a, Joined):
        return a.same(b)
    if isinstance(a, str) and isinstance(b, str):
        return a == b
    return a is b


class Env:
    """ghost state of the outside world for one path"""

    def __init__(self, run):
        self.run = run
        self.exists_memo = []          # (value, bool)
        self.expand = []               # (value, token)
        self.environ = {}              # name -> Str | None
        self.file = {}                 # key -> Str | None
        self.opened = []

    def exists(self, v):
        for k, b in self.exists_memo:
            if _same(k, v):
                return b
        b = self.run.choose([(False, True), (True, True)], f'exists({v!r})')
        self.exists_memo.append((v, b))
        return b

    def expanded(self, kind, v):
        for k, t in self.expand:
            if k[0] == kind and _same(k[1], v):
                return t
        t = Str(f'{kind}({v!r})')
        self.expand.append(((kind, v), t))
        return t

    def getenv(self, key):
        if key not in self.environ:
            k = self.run.choose([('unset', True), ('set', True)], f'env {key}')
            if k == 'set':
                # a variable may be present with an empty value (export NDN_CLIENT_X=): it is still the override
                e = self.run.choose([('non-empty', True), ('empty', True)], f'env {key} value')
                self.environ[key] = self.value(self.run, f'env.{key}') if e == 'non-empty' else Str(f'env.{key}(empty)', empty=True)
            else:
                self.environ[key] = None
        return self.environ[key]

    def filekey(self, key):
        if key not in self.file:
            k = self.run.choose([('absent', True), ('present', True)], f'file key {key}')
            self.file[key] = self.value(self.run, f'file.{key}') if k == 'present' else None
        return self.file[key]

    def value(self, run, label):
        """a configured value: any text, with or without a colon, with an empty or non-empty location"""
        return Str(label, parts='lazy')


def env_of(it):
    e = it.run.ghost.get('env')
    if e is None:
        raise Unsupported('file system / environment access outside a client_conf contract')
    return e


class EnvironModel:
    def getattr_(self, it, name, node):
        if name == 'get':
            def get(it_, key, default=None):
                if not isinstance(key, str):
                    raise Unsupported('symbolic environment variable name')
                v = env_of(it_).getenv(key)
                return default if v is None else v
            return _M(get)
        raise Unsupported(f'os.environ.{name}')

    def contains(self, it, key, node):
        if not isinstance(key, str):
            raise Unsupported('symbolic environment variable name')
        return env_of(it).getenv(key) is not None

    def getitem(self, it, key, node):
        e = env_of(it)
        if not isinstance(key, str):
            raise Unsupported('symbolic environment variable name')
        if e.getenv(key) is None:
            it.raise_(KeyError, key, node=node)
        return e.environ[key]


class FileModel:
    def __init__(self, path):
        self.path = path

    def getattr_(self, it, name, node):
        if name == '__enter__':
            return _M(lambda it_: self)
        if name == '__exit__':
            return _M(lambda it_, *a: False)
        if name == 'read':
            return _M(lambda it_: Str('file text'))
        raise Unsupported(f'file.{name}')


class SectionModel:
    def getitem(self, it, key, node):
        e = env_of(it)
        if e.filekey(key) is None:
            it.raise_(KeyError, key, node=node)
        return e.file[key]


class ConfigModel:
    def getattr_(self, it, name, node):
        if name == 'read_string':
            return _M(lambda it_, text: None)
        raise Unsupported(f'ConfigParser.{name}')

    def getitem(self, it, key, node):
        if key != 'DEFAULT':
            raise Unsupported('section other than DEFAULT')
        return SectionModel()


def _install():
    from pyvc import models
    R, Bm = models.REAL_FUNCTION_MODELS, models.BUILTIN_MODELS
    R[os.path.exists] = lambda it, a, k, n: env_of(it).exists(a[0])
    R[os.path.expandvars] = lambda it, a, k, n: env_of(it).expanded('expandvars', a[0])
    R[os.path.expanduser] = lambda it, a, k, n: env_of(it).expanded('expanduser', a[0])
    # posixpath facts used: dirname('') == '' and join('', x) == x
    R[os.path.dirname] = lambda it, a, k, n: '' if a[0] == '' else Joined('dirname', a[0])
    R[os.path.join] = lambda it, a, k, n: a[1] if (len(a) == 2 and a[0] == '') else Joined('path.join', *a)
    R[urlparse] = lambda it, a, k, n: it.run.ghost['url'](a[0])

    def m_open(it, a, k, n):
        e = env_of(it)
        e.opened.append(a[0])
        return FileModel(a[0])
    Bm[open] = m_open
    Bm[ConfigParser] = lambda it, a, k, n: ConfigModel()
    Bm[Platform] = lambda it, a, k, n: SymObj(Linux, {})

    def m_strjoin(it, sep, parts):
        return Joined('join' + sep, *parts)
    models.STR_JOIN_HOOK = m_strjoin


_install()
KEYS = ('transport', 'pib', 'tpm')




def _split(run, v):
    if isinstance(v, Str):
        sp = v.split_parts(run)
        return (sp[0], '') if len(sp) == 1 else sp
    scheme, _, loc = v.partition(':')
    return scheme, loc


def _nonempty(loc):
    return (isinstance(loc, Str) and loc.empty is False) or (isinstance(loc, str) and loc != '')


@contract
class resolve_location(Contract):
    fn = cc.read_client_conf
    nested = 'resolve_location'
    props = ('C20',)
    doc = ('resolve_location(item, value) -> scheme:location for ALL values: the scheme is the text before the first colon (the '
           'whole value without one); an existing location is kept as given; a missing one is resolved against the directory of '
           'the configuration file when there is one and the result exists; otherwise the first existing platform default '
           'location for that store is used, or the first default when none exists yet')
    raises = {}

    def setup(self, cx):
        run = cx.run
        env = Env(run)
        run.ghost['env'] = env
        item = run.choose([('pib', True), ('tpm', True)], 'item')
        vk = run.choose([('platform default scheme', True), ('configured value', True)], 'value')
        value = Str('value', parts='lazy') if vk == 'configured value' else {'pib': 'pib-sqlite3', 'tpm': 'tpm-file'}[item]
        pk = run.choose([('no configuration file', True), ('configuration file', True)], 'conf')
        run.ghost['rl.path'] = '' if pk == 'no configuration file' else Str('conf path')
        return dict(item=item, value=value)

    def closure(self, cx):
        return dict(path=cx.run.ghost['rl.path'])

    def post(c, cx, result, item, value):
        return resolved_spec(cx.it, cx.run, result, item, value, cx.run.ghost['rl.path'])

    def post_assumed(c, cx, result, item, value):
        return {}

    def result(c, cx, item, value):
        r = Opaque('resolved', f'resolved({item})')
        r.d.update(item=item, value=value, path=cx.it.top_locals.get('path'))
        return r


def resolved_spec(it, run, result, item, value, path):
    env = run.ghost['env']
    plat = SymObj(Linux, {})
    scheme, loc = _split(run, value)
    if _nonempty(loc) and env.exists(loc):
        want = loc
    elif _nonempty(loc) and path != '' and env.exists(Joined('path.join', Joined('dirname', path), loc)):
        want = Joined('path.join', Joined('dirname', path), loc)
    else:
        cands = it.call(it.getattr(plat, 'default_pib_paths' if item == 'pib' else 'default_tpm_paths'), [], {}, None)
        cands = [env.expanded('expandvars', p) for p in cands]
        want = next((p for p in cands if env.exists(p)), cands[0])
    if not isinstance(result, Joined):
        # the value was put together in a way this vocabulary does not follow (an f-string, concatenation ...): no verdict here,
        # the stand-in decides (a result that IS 'scheme:location' text built differently must not be reported as wrong)
        raise Unsupported(f'resolve_location result built without ":".join(...): {type(result).__name__}')
    ok = result.kind == 'join:' and len(result.parts) == 2
    return {'scheme_is_text_before_first_colon': ok and _same(result.parts[0], scheme),
            'location_resolved_existing_then_relative_to_conf_then_default': ok and _same(result.parts[1], want)}


@contract
class read_client_conf(Contract):
    fn = cc.read_client_conf
    props = ('C20',)
    doc = ('read_client_conf, for ALL values and every combination of presence: each setting is the NDN_CLIENT_* variable if set, '
           'else the value in the first existing client.conf, else the platform default; pib and tpm are then passed through '
           'resolve_location (with that configuration file as base); only the first existing configuration file is opened')
    raises = {}

    def setup(self, cx):
        run = cx.run
        env = Env(run)
        run.ghost['env'] = env
        run.overlay[(id(os), 'environ')] = EnvironModel()
        return {}

    def post(c, cx, result):
        it, run = cx.it, cx.run
        env = run.ghost['env']
        plat = SymObj(Linux, {})
        out = {'returns_the_three_settings': isinstance(result, dict) and set(result) == set(KEYS)}
        if not out['returns_the_three_settings']:
            return out
        conf = None
        for p in it.call(it.getattr(plat, 'client_conf_paths'), [], {}, None):
            q = env.expanded('expandvars', p)
            if env.exists(q):
                conf = q
                break
        out['only_the_first_existing_conf_file_is_read'] = env.opened == ([conf] if conf is not None else [])
        defaults = {'transport': it.call(it.getattr(plat, 'default_transport'), [], {}, None),
                    'pib': it.call(it.getattr(plat, 'default_pib_scheme'), [], {}, None),
                    'tpm': it.call(it.getattr(plat, 'default_tpm_scheme'), [], {}, None)}
        for key in KEYS:
            # the ghost world decides (here at the latest) whether the variable / the file key is present
            ev = env.getenv(f'NDN_CLIENT_{key.upper()}')
            fv = env.filekey(key) if conf is not None else None
            src = ev if ev is not None else (fv if fv is not None else defaults[key])
            if key == 'transport':
                out['transport_env_over_file_over_default'] = _same(result[key], src)
            else:
                r = result[key]
                out[f'{key}_env_over_file_over_default_then_resolved'] = isinstance(r, Opaque) and r.typ == 'resolved' and \
                    r.d['item'] == key and _same(r.d['value'], src) and _same(r.d['path'], conf if conf is not None else '')
        return out


# ----------------------------------------------------------------------------- default_face / default_keychain
TCP = ('tcp', 'tcp4', 'tcp6')
UDP = ('udp', 'udp4', 'udp6')


class Scheme(Str):
    """a URI scheme that is none of the supported ones (any other text)"""

    def compare(self, it, op, other, node):
        import ast
        if isinstance(other, str):
            if other in ('unix',) + TCP + UDP:
                return not isinstance(op, ast.Eq)
            raise Unsupported('comparison of an unknown scheme with an unexpected literal')
        return super().compare(it, op, other, node)

    def getattr_(self, it, name, node):
        if name == 'startswith':
            # an unknown scheme may well start with "tcp" or "udp" (e.g. "tcpx"): both answers are possible
            return _M(lambda it_, prefix: it_.run.choose([(False, True), (True, True)], f'unknown scheme starts with {prefix!r}'))
        return super().getattr_(it, name, node)


def _url_model(run):
    def parse(face):
        sk = run.choose([(s, True) for s in ('unix',) + TCP + UDP] + [('other scheme', True)], 'scheme')
        scheme = Scheme('scheme') if sk == 'other scheme' else sk
        hk = run.choose([('host', True), ('no host', True)], 'host')
        host = Str('host') if hk == 'host' else None
        pk = run.choose([('no port', True), ('port', True)], 'port')
        port = None
        if pk == 'port':
            port = run.input_int('port')
            run.assume(z3.And(port >= 0, port <= 65535))      # urllib: ValueError otherwise (ASSUMED)
        u = SymObj(object, dict(scheme=scheme, path=Str('path', empty=run.fresh_bool('empty_path')), hostname=host, port=port))
        run.ghost['url.parsed'] = (face, u, sk)
        return u
    return parse


@contract
class default_face(Contract):
    fn = cc.default_face
    props = ('C20',)
    doc = ('default_face(uri): unix -> UnixFace at the URI path; tcp/tcp4/tcp6 -> TcpFace and udp/udp4/udp6 -> UdpFace at the '
           'URI host and port, port 6363 when the URI has none (or 0); any other scheme raises ValueError.  urlparse is assumed')
    raises = {ValueError: lambda cx, face: True}

    def setup(self, cx):
        cx.run.ghost['url'] = _url_model(cx.run)
        return dict(face=Str('uri'))

    def _want_port(c, cx, u):
        p = u.d['port']
        return 6363 if p is None else simp(z3.If(zint(p) == 0, 6363, zint(p)))

    def post(c, cx, result, face):
        arg, u, sk = cx.run.ghost['url.parsed']
        out = {'uri_parsed_is_the_argument': arg is face, 'is_a_face': isinstance(result, SymObj)}
        if not isinstance(result, SymObj):
            return out
        if sk == 'unix':
            p = u.d['path']
            out['unix_face_at_uri_path'] = result.cls is UnixFace and Or(p.empty, result.d.get('path') is p)
        elif sk in TCP:
            out['tcp_face_at_host_and_port'] = result.cls is TcpFace and (u.d['hostname'] is None or result.d.get('host') is u.d['hostname']) \
                and Eq(zint(result.d.get('port', 0)), c._want_port(cx, u))
        elif sk in UDP:
            out['udp_face_at_host_and_port'] = result.cls is UdpFace and result.d.get('host') is u.d['hostname'] \
                and Eq(zint(result.d.get('port', 0)), c._want_port(cx, u))
        else:
            out['unknown_scheme_is_refused'] = False
        return out

    def xpost(c, cx, exc, face):
        arg, u, sk = cx.run.ghost['url.parsed']
        return {'only_unknown_schemes_are_refused': sk == 'other scheme'}


class StoreStub:
    def __init__(self, kind, *args):
        self.kind, self.args = kind, args


def _install3():
    from pyvc import models
    models.BUILTIN_MODELS[TpmFile] = lambda it, a, k, n: StoreStub('TpmFile', *a)
    models.BUILTIN_MODELS[KeychainSqlite3] = lambda it, a, k, n: StoreStub('KeychainSqlite3', *a)


_install3()


class SchemeText(Str):
    """the scheme part of a store setting: one of the known schemes or anything else"""

    def __init__(self, label, known):
        super().__init__(label)
        self.known = known            # concrete text or None for "any other text"

    def compare(self, it, op, other, node):
        import ast
        if isinstance(other, str):
            r = self.known == other
            return r if isinstance(op, ast.Eq) else not r
        return super().compare(it, op, other, node)


@contract
class default_keychain(Contract):
    fn = cc.default_keychain
    props = ('C20',)
    doc = ('default_keychain(pib, tpm): tpm-file + pib-sqlite3 give a KeychainSqlite3 on <pib location>/pib.db over a TpmFile at '
           'the tpm location; an unknown tpm or pib scheme raises ValueError (on Linux the osx/cng schemes are not available); '
           'a setting without colon is an error, never a silently chosen store')
    raises = {ValueError: lambda cx, pib, tpm: True, NameError: lambda cx, pib, tpm: True}

    def setup(self, cx):
        run = cx.run

        def setting(label, known):
            k = run.choose([(s, True) for s in known] + [('other', True), ('no colon', True)], f'{label} scheme')
            if k == 'no colon':
                return Str(label, parts=None), k
            return Str(label, parts=(SchemeText(label + '.scheme', None if k == 'other' else k), Str(label + '.loc'))), k
        pib, pk = setting('pib', ['pib-sqlite3'])
        tpm, tk = setting('tpm', ['tpm-file', 'tpm-osxkeychain', 'tpm-cng'])
        run.ghost['kc'] = (pk, tk)
        return dict(pib=pib, tpm=tpm)

    def post(c, cx, result, pib, tpm):
        pk, tk = cx.run.ghost['kc']
        out = {'built_only_for_supported_schemes': pk == 'pib-sqlite3' and tk == 'tpm-file'}
        if out['built_only_for_supported_schemes']:
            ok = isinstance(result, StoreStub) and result.kind == 'KeychainSqlite3' and len(result.args) == 2
            out['sqlite_keychain_at_pib_location'] = ok and _same(result.args[0], Joined('path.join', pib.parts[1], 'pib.db'))
            out['file_tpm_at_tpm_location'] = ok and isinstance(result.args[1], StoreStub) and result.args[1].kind == 'TpmFile' and \
                result.args[1].args == (tpm.parts[1],)
        return out

    def xpost(c, cx, exc, pib, tpm):
        pk, tk = cx.run.ghost['kc']
        if exc.cls is NameError:
            return {'platform_specific_tpm_only': tk in ('tpm-osxkeychain', 'tpm-cng')}
        return {'refused_only_for_unsupported_setting': not (pk == 'pib-sqlite3' and tk == 'tpm-file')}
