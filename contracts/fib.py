"""Contracts for attach_handler / detach_handler (appv2) against the ASSUMED contracts of the pygtrie-backed NameTrie:
setdefault(key, default) returns the stored value or stores and returns the default; `del trie[key]` removes exactly that
key (KeyError if absent); other keys are untouched.  A name is represented by its ghost identity: two input forms that
normalise to the same component list have the same identity (the normalisation itself: contracts/name.py + bounded C09)."""
import z3
from ndn import appv2
from ndn.encoding.name import Name
from pyvc.zutil import *
from pyvc.contracts import Contract, contract
from pyvc.run import Unsupported
from pyvc.values import SymObj, PyExc
from pyvc.symseq import KeyTok, BOOLROW
from contracts.assumed_aio import _M, UserFn


class NameId:
    """a NonStrictName known through the identity of its normalised component list"""
    opaque_value = True          # stands for an unknown value of a library type: foreign contracts do not know it

    def __init__(self, kid):
        self.kid = kid


@contract
class normalize_for_ids(Contract):
    fn = Name.normalize
    assumed = True

    def use_contract_at(c, it, args, kwargs):
        return isinstance(args[0], NameId)

    def result(c, cx, name):
        return name


@contract
class to_str_for_ids(Contract):
    fn = Name.to_str
    assumed = True

    def use_contract_at(c, it, args, kwargs):
        return isinstance(args[0], NameId)

    def result(c, cx, name):
        return '<uri>'


class NodeRef:
    def __init__(self, fib, k):
        self.fib, self.k = fib, k

    def getattr_(self, it, name, node):
        if name == 'callback':
            return CallbackSlot(self.fib, self.k)
        if name == 'validator':
            return None
        raise Unsupported(f'PrefixTreeNode.{name}')

    def setattr_(self, it, name, val, node):
        f, k = self.fib, zint(self.k)
        if name == 'callback':
            f.has_cb = z3.Store(f.has_cb, k, z3.BoolVal(val is not None))
            f.writes.append(('callback', self.k, val))
        elif name in ('validator', 'extra_param'):
            f.writes.append((name, self.k, val))
        else:
            raise Unsupported(f'PrefixTreeNode.{name} assignment')


class CallbackSlot:
    """value of node.callback: only its truthiness matters here"""

    def __init__(self, fib, k):
        self.fib, self.k = fib, k

    def truth(self, it):
        return z3.Select(self.fib.has_cb, zint(self.k))


class FibModel:
    def __init__(self, run):
        self.run = run
        self.dom = z3.Const(run.fresh_name('fib_dom'), BOOLROW)
        self.has_cb = z3.Const(run.fresh_name('fib_cb'), BOOLROW)
        k = z3.Int('k!fib')
        # representation invariant of the FIB: a stored node has a handler (detach removes the node)
        run.assume(z3.ForAll([k], z3.Implies(z3.Select(self.has_cb, k), z3.Select(self.dom, k))))
        self.dom0, self.cb0 = self.dom, self.has_cb
        self.writes = []

    def getattr_(self, it, name, node):
        if name == 'setdefault':
            def f(it_, key, default):
                k = zint(key.kid)
                if it_.run.branch(z3.Select(self.dom, k), 'fib.has_key'):
                    return NodeRef(self, key.kid)
                self.dom = z3.Store(self.dom, k, z3.BoolVal(True))
                self.has_cb = z3.Store(self.has_cb, k, z3.BoolVal(False))      # a fresh PrefixTreeNode has no callback
                return NodeRef(self, key.kid)
            return _M(f)
        if name == 'has_subtrie':
            # ASSUMED pygtrie: true iff some key that strictly extends `key` is stored; longer keys are not modelled
            # here, so the answer is an unconstrained boolean
            return _M(lambda it_, key: it_.run.fresh_bool('has_longer_prefix'))
        if name == 'has_key':
            return _M(lambda it_, key: z3.Select(self.dom, zint(key.kid)))
        raise Unsupported(f'NameTrie.{name}')

    def getitem(self, it, key, node):
        k = zint(key.kid)
        if not it.run.branch(z3.Select(self.dom, k), 'fib.has_key'):
            it.raise_(KeyError, 'key', node=node)
        return NodeRef(self, key.kid)

    def contains(self, it, key, node):
        return z3.Select(self.dom, zint(key.kid))

    def delitem(self, it, key, node):
        k = zint(key.kid)
        if not it.run.branch(z3.Select(self.dom, k), 'fib.has_key'):
            it.raise_(KeyError, 'key', node=node)
        self.dom = z3.Store(self.dom, k, z3.BoolVal(False))
        self.has_cb = z3.Store(self.has_cb, k, z3.BoolVal(False))


def others_untouched(f, k):
    j = z3.Int('j!fib')
    return z3.ForAll([j], z3.Implies(j != zint(k), z3.And(z3.Select(f.dom, j) == z3.Select(f.dom0, j),
                                                           z3.Select(f.has_cb, j) == z3.Select(f.cb0, j))))


@contract
class attach_handler(Contract):
    fn = appv2.NDNApp.attach_handler
    props = ('C04',)
    doc = ('attach_handler: attaching to an occupied prefix is refused with ValueError and changes nothing; otherwise exactly '
           'that prefix gets exactly this handler and validator; every other prefix is untouched')
    exact_raises = True

    def setup(self, cx):
        run = cx.run
        fib = FibModel(run)
        run.ghost['fib'] = fib
        app = SymObj(appv2.NDNApp, dict(_fib=fib))
        return dict(self=app, name=NameId(run.input_int('name_id')), handler=UserFn('handler'), validator=UserFn('validator'))

    raises = {ValueError: lambda cx, self, name, handler, validator: (lambda f: z3.And(z3.Select(f.dom0, zint(name.kid)),
                                                                                        z3.Select(f.cb0, zint(name.kid))))(cx.run.ghost['fib'])}

    def xpost(c, cx, e, self, name, handler, validator):
        f = cx.run.ghost['fib']
        j = z3.Int('j!x')
        return {'refused_attach_changes_nothing': z3.And(f.writes == [], z3.ForAll([j], z3.And(
            z3.Select(f.dom, j) == z3.Select(f.dom0, j), z3.Select(f.has_cb, j) == z3.Select(f.cb0, j))))}

    def post(c, cx, result, self, name, handler, validator):
        f = cx.run.ghost['fib']
        k = zint(name.kid)
        return {'prefix_now_attached': z3.And(z3.Select(f.dom, k), z3.Select(f.has_cb, k)),
                'this_handler_and_validator_stored_there': f.writes == [('callback', name.kid, handler), ('validator', name.kid, validator)],
                'other_prefixes_untouched': others_untouched(f, k)}


@contract
class detach_handler(Contract):
    fn = appv2.NDNApp.detach_handler
    props = ('C04',)
    doc = 'detach_handler removes exactly that prefix (KeyError if it was not attached); every other prefix is untouched'
    exact_raises = True

    def setup(self, cx):
        run = cx.run
        fib = FibModel(run)
        run.ghost['fib'] = fib
        app = SymObj(appv2.NDNApp, dict(_fib=fib))
        return dict(self=app, name=NameId(run.input_int('name_id')))

    raises = {KeyError: lambda cx, self, name: z3.Not(z3.Select(cx.run.ghost['fib'].dom0, zint(name.kid)))}

    def post(c, cx, result, self, name):
        f = cx.run.ghost['fib']
        k = zint(name.kid)
        return {'prefix_no_longer_attached': z3.And(z3.Not(z3.Select(f.dom, k)), z3.Not(z3.Select(f.has_cb, k))),
                'other_prefixes_untouched': others_untouched(f, k)}
