"""Contract for the backtracking matcher Checker._match (properties C11, C12): representation invariant of its explicit
stacks, absence of run-time errors on a sanity-checked model, and SOUNDNESS OF EVERY STEP (loop step contract): an edge is
taken only under the conditions the schema states, bindings are added and removed exactly with the moves that made them,
a match is reported exactly when the whole name is consumed.  Completeness of the search and termination are NOT proved
(bounded stand-in).

Ghost vocabulary: name component d has value id NV(d); value edge e of node c has value id VV(c, e) and destination
VD(c, e); pattern edge k of node c has tag PT(c, k) and destination PD(c, k); bindings map tags to value ids.
ASSUMED (established by the loader, contracts/lvs.py): destinations and parents are existing nodes."""
import z3
from ndn.app_support.light_versec import checker as ck
from pyvc.zutil import *
from pyvc.contracts import Contract, contract, LoopSpec
from pyvc.run import Unsupported
from pyvc.values import SymObj, Opaque, PyExc
from pyvc.symseq import AbsSeq, AbsObj
from contracts.assumed_aio import _M

B = z3.BoolSort()
INTARR = z3.ArraySort(INT, INT)
BOOLARR = z3.ArraySort(INT, B)
NNODES, NL, NPC = z3.Int('M_NNODES'), z3.Int('M_NAMELEN'), z3.Int('M_NAMED_PATTERNS')
NV = z3.Function('NAME_VALUE', INT, INT)
NVE = z3.Function('N_VALUE_EDGES', INT, INT)
NPE = z3.Function('N_PATTERN_EDGES', INT, INT)
VV = z3.Function('VEDGE_VALUE', INT, INT, INT)
VD = z3.Function('VEDGE_DEST', INT, INT, INT)
PT = z3.Function('PEDGE_TAG', INT, INT, INT)
PD = z3.Function('PEDGE_DEST', INT, INT, INT)
PARNONE = z3.Function('NODE_PARENT_NONE', INT, B)
PAR = z3.Function('NODE_PARENT', INT, INT)


class ValId:
    """a name component / edge value / bound value, known through its value id (equal bytes <=> equal id)"""

    def __init__(self, vid):
        self.vid = vid

    def compare(self, it, op, other, node):
        import ast
        if not isinstance(other, ValId):
            raise Unsupported('comparison of a component with something else')
        r = simp(zint(self.vid) == zint(other.vid))
        return r if isinstance(op, ast.Eq) else Not(r)

    def rcompare(self, it, op, other, node):
        return self.compare(it, op, other, node)


class MName:
    def len_(self, it, node):
        return NL

    def getitem(self, it, idx, node):
        i = zint(idx)
        if not it.run.branch(z3.And(i >= 0, i < NL), 'name.index_ok'):
            it.raise_(IndexError, 'list index out of range', node=node)
        return ValId(NV(i))


class Stack:
    """python list used as a stack of ints: length n, elements arr[0..n)"""

    def __init__(self, run, label, n=0, arr=None):
        self.run, self.label = run, label
        self.n = n
        self.arr = arr if arr is not None else z3.K(INT, z3.IntVal(0))
        self.pushed, self.popped = [], []

    def snapshot(self):
        return (self.n, self.arr)

    def len_(self, it, node):
        return self.n

    def truth(self, it):
        return simp(zint(self.n) != 0)

    def getattr_(self, it, name, node):
        if name == 'append':
            def append(it_, v):
                self.arr = z3.Store(self.arr, zint(self.n), zint(v))
                self.n = simp(zint(self.n) + 1)
                self.pushed.append(v)
            return _M(append)
        if name == 'pop':
            def pop(it_):
                if it_.run.branch(zint(self.n) <= 0, f'{self.label}.empty'):
                    it_.raise_(IndexError, 'pop from empty list', node=node)
                self.n = simp(zint(self.n) - 1)
                v = z3.Select(self.arr, zint(self.n))
                self.popped.append(v)
                return v
            return _M(pop)
        raise Unsupported(f'list.{name} on a stack')


class Ctx:
    """bindings: tag -> value id"""

    def __init__(self, run, dom, val):
        self.run, self.dom, self.val = run, dom, val

    def snapshot(self):
        return (self.dom, self.val)

    def getattr_(self, it, name, node):
        if name == 'copy':
            return _M(lambda it_: Ctx(self.run, self.dom, self.val))
        raise Unsupported(f'dict.{name} on the bindings')

    def contains(self, it, key, node):
        return z3.Select(self.dom, zint(key))

    def getitem(self, it, key, node):
        if not it.run.branch(z3.Select(self.dom, zint(key)), 'bindings.has_tag'):
            it.raise_(KeyError, 'tag', node=node)
        return ValId(z3.Select(self.val, zint(key)))

    def setitem(self, it, key, v, node):
        if not isinstance(v, ValId):
            raise Unsupported('binding of something else than a component')
        self.dom = z3.Store(self.dom, zint(key), z3.BoolVal(True))
        self.val = z3.Store(self.val, zint(key), zint(v.vid))

    def delitem(self, it, key, node):
        if not it.run.branch(z3.Select(self.dom, zint(key)), 'bindings.has_tag'):
            it.raise_(KeyError, 'tag', node=node)
        self.dom = z3.Store(self.dom, zint(key), z3.BoolVal(False))


class ConsTok:
    def __init__(self, c, k):
        self.c, self.k = c, k


class Nodes:
    def len_(self, it, node):
        return NNODES

    def getitem(self, it, idx, node):
        c = zint(idx)
        if not it.run.branch(z3.And(c >= 0, c < NNODES), 'nodes.index_ok'):
            it.raise_(IndexError, 'list index out of range', node=node)
        run = it.run
        run.assume(z3.And(NVE(c) >= 0, NPE(c) >= 0))
        ve = AbsSeq(run, f'v_edges[{c}]', lambda e: AbsObj('ve', dict(value=ValId(VV(c, e)), dest=VD(c, e))), NVE(c))
        ve.node = c
        pe = AbsSeq(run, f'p_edges[{c}]', lambda k: AbsObj('pe', dict(tag=PT(c, k), dest=PD(c, k), cons_sets=ConsTok(c, k))), NPE(c))
        return AbsObj(f'node[{c}]', dict(v_edges=ve, p_edges=pe,
                                         parent=lambda it_: None if it_.run.branch(PARNONE(c), 'node.parent_none') else PAR(c)))


@contract
class check_cons_summary(Contract):
    """call-site summary of _check_cons inside _match (its own contract: contracts/lvs.py): some boolean answer, recorded"""
    fn = ck.Checker._check_cons
    assumed = True
    raises = {ck.LvsModelError: lambda cx, **p: True}

    def use_contract_at(c, it, args, kwargs):
        return len(args) >= 4 and isinstance(args[3], ConsTok)

    def result(c, cx, self, value, context, cons_set):
        b = cx.run.fresh_bool('constraints_hold')
        cx.run.ghost.setdefault('m.cons', []).append((value, context.snapshot(), cons_set, b))
        return b


def wellformed_model(run):
    c, e = z3.Int('c!wf'), z3.Int('e!wf')
    inr = z3.And(c >= 0, c < NNODES)
    run.assume(z3.ForAll([c, e], z3.Implies(z3.And(inr, e >= 0, e < NVE(c)), z3.And(VD(c, e) >= 0, VD(c, e) < NNODES))))
    run.assume(z3.ForAll([c, e], z3.Implies(z3.And(inr, e >= 0, e < NPE(c)), z3.And(PD(c, e) >= 0, PD(c, e) < NNODES, PT(c, e) >= 0))))
    run.assume(z3.ForAll([c], z3.Implies(z3.And(inr, z3.Not(PARNONE(c))), z3.And(PAR(c) >= 0, PAR(c) < NNODES))))
    run.assume(z3.And(NNODES >= 0, NL >= 0, NPC >= 0))


# ----------------------------------------------------------------------------- invariants
def _stacks_inv(ei, ms, ctx):
    j, k = z3.Int('j!mi'), z3.Int('k!mi')
    n = zint(ms.n)
    inr = lambda x: z3.And(x >= 0, x < n)      # noqa: E731
    return {'one_marker_per_edge_taken': Eq(zint(ei.n), zint(ms.n)),
            'depth_within_the_name': And(zint(ei.n) >= 0, zint(ei.n) <= NL),
            'markers_are_tags_or_minus_one': z3.ForAll([j], z3.Implies(inr(j), z3.Select(ms.arr, j) >= -1)),
            'resume_positions_are_edge_positions': z3.ForAll([j], z3.Implies(inr(j), z3.Select(ei.arr, j) >= 0)),
            'every_recorded_tag_is_bound': z3.ForAll([j], z3.Implies(z3.And(inr(j), z3.Select(ms.arr, j) >= 0),
                                                                     z3.Select(ctx.dom, z3.Select(ms.arr, j)))),
            'recorded_tags_are_distinct': z3.ForAll([j, k], z3.Implies(z3.And(inr(j), inr(k), j != k, z3.Select(ms.arr, j) >= 0),
                                                                       z3.Select(ms.arr, j) != z3.Select(ms.arr, k)))}


def _as_stack(run, v, label):
    if isinstance(v, Stack):
        return v
    if isinstance(v, list) and v == []:
        return Stack(run, label)
    raise Unsupported(f'{label} is neither an empty list nor a modelled stack')


def _outer_inv(it, env, g):
    out = _stacks_inv(_as_stack(it.run, env['edge_indices'], 'edge_indices'), _as_stack(it.run, env['matches'], 'matches'), env['context'])
    out['edge_index_from_minus_one'] = zint(env['edge_index']) >= -1
    cur = env['cur']
    out['current_node_exists'] = True if cur is None else And(zint(cur) >= 0, zint(cur) < NNODES)
    return out


def _havoc_outer(it, env, g):
    run = it.run
    d = run.ghost['m']
    ei = Stack(run, 'edge_indices', run.fresh_int('depth'), z3.Const(run.fresh_name('ei'), INTARR))
    ms = Stack(run, 'matches', run.fresh_int('nmatches'), z3.Const(run.fresh_name('ms'), INTARR))
    ctx = Ctx(run, z3.Const(run.fresh_name('dom'), BOOLARR), z3.Const(run.fresh_name('val'), INTARR))
    env['matches'], env['context'] = ms, ctx
    run.ghost.get('m.cons', []).clear()
    d['yields'].clear()
    d['head'] = dict(ei=ei.snapshot(), ms=ms.snapshot(), ctx=ctx.snapshot(), cur=None)
    return ei


def _havoc_cur(it, env, g):
    run = it.run
    k = run.choose([('at a node', True), ('search finished', True)], 'cur')
    cur = run.fresh_int('cur') if k == 'at a node' else None
    run.ghost['m']['head']['cur'] = cur
    return cur


def _inner_inv(it, env, g):
    """value-edge scan: nothing matched so far, nothing changed"""
    run = it.run
    d = run.ghost['m']
    seq = g['seq']
    c = seq.node
    e = z3.Int('e!vi')
    depth = zint(env['depth'])
    h = d['head']
    ei, ms, ctx = env['edge_indices'], env['matches'], env['context']
    return {'no_earlier_value_edge_equals_the_component': z3.ForAll([e], z3.Implies(z3.And(e >= 0, e < zint(g['i'])), VV(c, e) != NV(depth))),
            'scan_changes_nothing': And(ei.n is h['ei'][0] or Eq(zint(ei.n), zint(h['ei'][0])), ei.arr is h['ei'][1], ms.arr is h['ms'][1],
                                        ctx.dom is h['ctx'][0], ctx.val is h['ctx'][1], Eq(zint(env['edge_index']), 0),
                                        env['cur'] is not None and h['cur'] is not None and Eq(zint(env['cur']), zint(h['cur'])))}


# ----------------------------------------------------------------------------- one step of the search
def _step(it, pre, env, g):
    run = it.run
    d = run.ghost['m']
    h = d['head']
    cur0 = h['cur']
    n0, a0 = h['ei']
    dom0, val0 = h['ctx']
    ei, ms, ctx = env['edge_indices'], env['matches'], env['context']
    ei0 = pre['edge_index']
    cur1, ei1 = env['cur'], env['edge_index']
    D0 = zint(n0)
    cons = run.ghost.get('m.cons', [])
    ys = d['yields']
    out = {}
    same_ctx = ctx.dom is dom0 and ctx.val is val0
    if ei.pushed:
        # an edge was taken
        out['one_edge_one_marker'] = len(ei.pushed) == 1 and len(ms.pushed) == 1 and ei.popped == [] and ms.popped == []
        out['moves_only_inside_the_name'] = D0 < NL
        out['no_match_reported_while_descending'] = ys == []
        out['search_restarts_at_the_child'] = Eq(zint(ei1), -1)
        x = ei.pushed[0]
        if x == 0 and len(cons) == 0:
            # value edge: the scan stopped (break) at edge e
            g2 = env.get('__active_loop_ghosts__', {}).get(2)
            e = zint(g2['i']) if g2 is not None else None
            out['value_edge_taken_only_for_an_equal_component'] = e is not None and And(
                e >= 0, e < NVE(zint(cur0)), VV(zint(cur0), e) == NV(D0), Eq(zint(cur1), VD(zint(cur0), e)), zint(ei0) < 0)
            out['value_edge_binds_nothing'] = same_ctx and len(ms.pushed) == 1 and Eq(zint(ms.pushed[0]), -1)
        else:
            k = simp(zint(ei0))                    # the pattern edge examined in this step
            tag = PT(zint(cur0), k)
            ok_cons = len(cons) == 1 and isinstance(cons[0][0], ValId) and isinstance(cons[0][2], ConsTok)
            out['pattern_edge_taken_only_after_its_constraints_held'] = ok_cons and And(
                cons[0][3], Eq(zint(cons[0][0].vid), NV(D0)), Eq(zint(cons[0][2].c), zint(cur0)), Eq(zint(cons[0][2].k), k),
                cons[0][1][0] is dom0 and cons[0][1][1] is val0)
            out['pattern_edge_is_the_next_untried_one'] = And(k >= 0, k < NPE(zint(cur0)), Eq(zint(x), k + 1), Eq(zint(cur1), PD(zint(cur0), k)))
            bound = z3.Select(dom0, tag)
            m = zint(ms.pushed[0]) if len(ms.pushed) == 1 else None
            if same_ctx:
                out['bound_pattern_must_repeat_its_value_unbound_temporary_binds_nothing'] = m is not None and And(
                    Eq(m, -1), Or(And(bound, z3.Select(val0, tag) == NV(D0)), And(Not(bound), tag > NPC)))
            else:
                out['unbound_named_pattern_is_bound_to_this_component'] = m is not None and And(
                    Not(bound), tag <= NPC, Eq(m, tag), ctx.dom == z3.Store(dom0, tag, z3.BoolVal(True)),
                    ctx.val == z3.Store(val0, tag, NV(D0)))
    elif env.get('backtrack') is True:
        # backtrack
        out['match_reported_iff_the_whole_name_is_consumed'] = And(Implies(D0 == NL, len(ys) == 1), Implies(D0 != NL, len(ys) == 0))
        if len(ys) == 1:
            yc, ysnap = ys[0]
            out['reported_match_is_this_node_with_the_current_bindings'] = And(Eq(zint(yc), zint(cur0)), ysnap[0] is dom0 and ysnap[1] is val0)
        par_none = PARNONE(zint(cur0))
        out['returns_to_the_parent'] = And(Implies(par_none, cur1 is None), Implies(Not(par_none), cur1 is not None and Eq(zint(cur1), PAR(zint(cur0)))))
        out['pops_one_marker_per_stack_when_not_at_the_root'] = And(len(ei.popped) == (1 if ei.popped else 0), len(ms.popped) == len(ei.popped),
                                                                  Implies(D0 > 0, len(ei.popped) == 1))
        if ms.popped:
            t = zint(ms.popped[0])
            out['binding_made_by_the_undone_move_is_removed_nothing_else'] = And(
                Implies(t >= 0, And(ctx.dom == z3.Store(dom0, t, z3.BoolVal(False)), ctx.val is val0)),
                Implies(t < 0, same_ctx))
            out['resumes_after_the_edge_it_came_by'] = Eq(zint(ei1), zint(ei.popped[0]))
        else:
            out['root_backtrack_changes_no_binding'] = same_ctx
    else:
        # an edge was tried and refused, or the value edges were scanned without success
        out['no_backtrack_without_reason'] = env.get('backtrack') is False
        out['refused_edge_changes_nothing'] = And(same_ctx, ys == [], ei.popped == [] and ms.popped == [],
                                                  cur1 is not None and Eq(zint(cur1), zint(cur0)),
                                                  Or(Eq(zint(ei1), zint(ei0) + 1), And(zint(ei0) < 0, Eq(zint(ei1), 0))))
    return out


@contract
class match(Contract):
    fn = ck.Checker._match
    props = ('C11', 'C12')
    doc = ('Checker._match on a sanity-checked model, ANY name and ANY initial bindings: the explicit stacks stay consistent (one marker '
           'per edge taken, every recorded tag bound, tags distinct, depth within the name), no run-time error can occur, and every '
           'step is sound: a value edge is taken only for an equal component and binds nothing; a pattern edge only after its '
           'constraints held for this component under the current bindings, a bound pattern only for an equal value, an unbound named '
           'pattern is bound to this component and an unbound temporary one binds nothing; a match is reported exactly when the whole '
           'name is consumed, with the current node and bindings; backtracking returns to the parent, resumes after the edge it came '
           'by and removes exactly the binding that edge made.  Completeness and termination are not proved')
    raises = {ck.LvsModelError: lambda cx, **p: True}
    loops = {1: LoopSpec(_outer_inv, havoc={'edge_indices': _havoc_outer, 'cur': _havoc_cur}, step=_step, abstracts=('matches',)),
             2: LoopSpec(_inner_inv)}

    def setup(self, cx):
        run = cx.run
        wellformed_model(run)
        sk = run.choose([('start node', True), ('no start node', True)], 'start_id')
        start = run.input_int('start_id') if sk == 'start node' else None
        if start is not None:
            run.assume(z3.And(start >= 0, start < NNODES))
        model = AbsObj('model', dict(start_id=start, nodes=Nodes(), named_pattern_cnt=NPC))
        ctx0 = Ctx(run, z3.Const(run.fresh_name('dom_in'), BOOLARR), z3.Const(run.fresh_name('val_in'), INTARR))
        run.ghost['m'] = dict(yields=[], head=None)

        def on_yield(it_, v, node):
            c_, ctx_ = v
            run.ghost['m']['yields'].append((c_, ctx_.snapshot()))
        run.ghost['on_yield'] = on_yield
        return dict(self=SymObj(ck.Checker, dict(model=model)), name=MName(), context=ctx0)

    def post(c, cx, result, self, name, context):
        return {'search_ends_above_the_root': cx.it.top_locals.get('cur') is None}
