"""Contracts for prefix registration (property C17): nfd_mgmt.parse_response / make_command_v2 and
transport/nfd_registerer.NfdRegister.register / unregister."""
import asyncio
import struct
import z3
from ndn.app_support import nfd_mgmt
from ndn.transport import nfd_registerer as reg
from ndn import types
from ndn.encoding import tlv_model as tm
from ndn.encoding.name import Name
from pyvc.zutil import *
from pyvc.contracts import Contract, contract, LoopSpec
from pyvc.run import View, Unsupported
from pyvc.values import SymObj, Opaque, PyExc, CoroVal, OptInt, SymStr
from pyvc.symseq import BufSeq, LazyDict
from spec.tlv import *
from contracts.assumed_aio import _M, install_clock, Face
from contracts.parse_summary import LazyParsed

DOCUMENTED = (tm.DecodeError, ValueError, IndexError, struct.error)
HANDLED = (types.InterestNack, types.InterestTimeout, types.InterestCanceled, types.ValidationFailure)


@contract
class parse_response(Contract):
    fn = nfd_mgmt.parse_response
    props = ('C17',)
    doc = ('parse_response: a ControlResponse is decoded into its status code, status text and the fields of its body (all None '
           'when the response has no body); only documented decoding errors are raised')
    raises = {**{e: (lambda cx, buf: isinstance(buf, View)) for e in DOCUMENTED}, TypeError: lambda cx, buf: not isinstance(buf, View)}

    def setup(self, cx):
        k = cx.run.choose([('bytes', True), ('None', True)], 'buf')
        return dict(buf=cx.run.input_buf('buf', 'bytes') if k == 'bytes' else None)

    def post(c, cx, result, buf):
        ok = isinstance(result, dict) and 'status_code' in result and 'status_text' in result
        out = {'has_status_fields': ok}
        if ok:
            out['has_every_control_parameter_field'] = all(f.name in result for f in nfd_mgmt.ControlParametersValue._encoded_fields)
        return out

    def result(c, cx, buf):
        run = cx.run
        d = LazyDict()
        code = run.fresh_int('status_code')
        run.assume(z3.And(code >= 0, code < 2 ** 64))
        d['status_code'] = OptInt(run.fresh_bool('no_status_code'), code)
        d['status_text'] = '<text>'
        for f in nfd_mgmt.ControlParametersValue._encoded_fields:
            d[f.name] = Opaque('token', f'body.{f.name}')
        run.ghost['resp.status_code'] = d['status_code']
        return d


class Semaphore:
    """asyncio.Semaphore(1) seen by one caller: entering may be granted, or the caller is cancelled while still queued
    (CancelledError out of acquire, nothing taken); `log` records what this caller did to the permits"""

    def __init__(self):
        self.held = 0
        self.log = []
        self.cancelled = False

    def _acquire(self, it_, node, ret):
        def thunk():
            k = it_.run.choose([('granted', True), ('cancelled while queued', True)], 'semaphore')
            if k != 'granted':
                self.cancelled = True
                raise PyExc(asyncio.CancelledError, ('cancelled while waiting for the semaphore',), getattr(node, 'lineno', None),
                            it_.where())
            self.held += 1
            self.log.append('acquire')
            return ret
        return CoroVal(thunk, 'sem.acquire')

    def _release(self):
        self.held -= 1
        self.log.append('release')

    def getattr_(self, it, name, node):
        if name == '__aenter__':
            return _M(lambda it_: self._acquire(it_, node, None))
        if name == 'acquire':
            return _M(lambda it_: self._acquire(it_, node, True))
        if name == '__aexit__':
            def f(it_, *a):
                def thunk():
                    self._release()
                    return False
                return CoroVal(thunk, 'sem.release')
            return _M(f)
        if name == 'release':
            def g(it_):
                self._release()
                return None
            return _M(g)
        raise Unsupported(f'Semaphore.{name}')


class Guarded(dict):
    """attribute dictionary of the registerer: remembers how many holders the semaphore had at every write of a field"""

    def __init__(self, d, sem):
        super().__init__(d)
        self.sem, self.writes = sem, []

    def __setitem__(self, k, v):
        self.writes.append((k, self.sem.held))
        super().__setitem__(k, v)


class RegApp:
    """the application a registerer talks to: express() records the command and plays a forwarder reply"""

    def __init__(self, run, sem):
        self.run, self.sem = run, sem
        self.face = Face(run, True)
        self.calls = []
        self.sig_times = []

    def getattr_(self, it, name, node):
        if name == 'face':
            return self.face
        if name == 'express':
            def express(it_, *a, **kw):
                self.calls.append((a, kw, self.sem.held))
                # the Interest is built and signed synchronously inside express(): SignatureTime = the clock now
                self.sig_times.append(it_.run.ghost['clock'].read())

                def thunk():
                    run = it_.run
                    tag = run.choose([('reply', True)] + [(e, True) for e in HANDLED], 'forwarder')
                    if tag != 'reply':
                        raise PyExc(tag, ('no usable reply',), getattr(node, 'lineno', None), it_.where())
                    run.ghost['reg.replied'] = True
                    ck = run.choose([('content', True), ('no content', True)], 'reply content')
                    return (Opaque('token', 'dname'), run.input_buf('reply', 'bytes') if ck == 'content' else None,
                            Opaque('token', 'ctx'))
                return CoroVal(thunk, 'express')
            return _M(express)
        raise Unsupported(f'app.{name}')


@contract
class make_command_v2_summary(Contract):
    """call-site summary; the layout of the command name is verified in make_command_v2 below"""
    fn = nfd_mgmt.make_command_v2
    assumed = True

    def use_contract_at(c, it, args, kwargs):
        return it.reg.under_proof is not nfd_mgmt.make_command_v2

    def apply_at(c, cx, p, node, site):
        r = Opaque('command_name', f"{p['module']}/{p['command']}")
        r.d.update(module=p['module'], command=p['command'], face=p['face'], kwargs=p['kwargs'])
        return r


def _sleep_model(it, args, kwargs, node):
    d = args[0]

    def thunk():
        c = it.run.ghost.get('clock')
        if c is not None:
            c.now = simp(zint(c.now) + 1)        # ASSUMED: sleep(0.001) lets the millisecond clock advance by >= 1
        return None
    return CoroVal(thunk, 'sleep')


def _install():
    from pyvc import models
    models.REAL_FUNCTION_MODELS[asyncio.sleep] = _sleep_model
    models.BUILTIN_MODELS[asyncio.sleep] = _sleep_model


_install()


class _RegBase(Contract):
    props = ('C17',)
    # nothing is raised - except that a caller cancelled while it is still queued for the semaphore sees its CancelledError
    raises = {asyncio.CancelledError: lambda cx, self, name: cx.run.ghost['reg']['sem'].cancelled}
    command = 'register'

    def xpost(c, cx, e, self, name):
        g = cx.run.ghost['reg']
        # one at a time, whatever happens to the callers: who never got the permit does not hand one out, and sends nothing
        return {'a_caller_cancelled_while_queued_leaves_the_permits_alone': g['sem'].log == [] and g['sem'].held == 0,
                'a_caller_cancelled_while_queued_sends_no_command': g['app'].calls == []}

    def setup(self, cx):
        run = cx.run
        clock = install_clock(run)
        sem = Semaphore()
        app = RegApp(run, sem)
        last = run.input_int('last_command_timestamp')
        run.assume(z3.And(last >= 0, last <= clock.now))       # it was read from the same clock earlier
        run.ghost['reg'] = dict(app=app, sem=sem, last0=last)
        self_ = SymObj(reg.NfdRegister, dict(app=app, _prefix_register_semaphore=sem, _last_command_timestamp=last))
        self_.d = Guarded(self_.d, sem)
        return dict(self=self_, name=BufSeq.fresh(run, 'prefix', 'bytearray'))

    def common_post(c, cx, result, self, name):
        g = cx.run.ghost['reg']
        app, sem = g['app'], g['sem']
        out = {'exactly_one_command': len(app.calls) == 1,
               'semaphore_released': sem.held == 0 and sem.log == ['acquire', 'release'],
               'timestamp_strictly_increases': zint(self.d['_last_command_timestamp']) > zint(g['last0']),
               # the freshness test that admits a command and the command itself are one critical section: the shared
               # timestamp is written at least once, and only by the holder of the semaphore
               'shared_timestamp_written_only_while_holding_the_semaphore':
                   any(k == '_last_command_timestamp' for k, h in self.d.writes)
                   and all(h == 1 for k, h in self.d.writes if k == '_last_command_timestamp')}
        if len(app.calls) == 1:
            a, kw, held = app.calls[0]
            cmd = kw.get('name', a[0] if a else None)
            ok = isinstance(cmd, Opaque) and cmd.typ == 'command_name'
            out['command_sent_while_holding_the_semaphore'] = held == 1
            out['command_names_this_prefix'] = ok and cmd.d['module'] == 'rib' and cmd.d['command'] == c.command and \
                cmd.d['kwargs'].get('name') is name and cmd.d['face'] is app.face
            out['signed_interest_format'] = kw.get('app_param') is not None and kw.get('signer') is not None
            st = app.sig_times[0]
            out['signature_time_after_previous_command'] = zint(st) > zint(g['last0'])
            out['next_command_will_be_later_than_this_signature_time'] = zint(self.d['_last_command_timestamp']) >= zint(st)
        return out


@contract
class register(_RegBase):
    fn = reg.NfdRegister.register
    command = 'register'
    doc = ('NfdRegister.register sends exactly one rib/register command naming the prefix, while holding the semaphore, with a '
           'timestamp strictly larger than the previous one (the shared timestamp is tested and written only by the holder of '
           'the semaphore, so test and command are one critical section); returns True iff the forwarder reply decodes to status 200; a '
           'Nack, timeout, cancellation, validation failure or other status gives False; nothing is raised')

    def post(c, cx, result, self, name):
        out = c.common_post(cx, result, self, name)
        g = cx.run.ghost
        if g.get('reg.replied'):
            sc = g.get('resp.status_code')
            if sc is None:
                out['undecodable_reply_means_failure'] = result is False
            else:
                is200 = And(Not(sc.isnone), zint(sc.val) == 200)
                out['success_iff_status_200'] = Iff(cx.it.truth(result), is200)
        else:
            out['no_reply_means_failure'] = result is False
        return out


@contract
class unregister(_RegBase):
    fn = reg.NfdRegister.unregister
    command = 'unregister'
    doc = ('NfdRegister.unregister: exactly one rib/unregister command naming the prefix, serialised and with an increasing '
           'timestamp; True iff the reply decodes to status 200, False otherwise, nothing raised')

    def post(c, cx, result, self, name):
        out = c.common_post(cx, result, self, name)
        g = cx.run.ghost
        if g.get('reg.replied'):
            sc = g.get('resp.status_code')
            if sc is None:
                out['undecodable_reply_means_failure'] = result is False
            else:
                out['success_iff_status_200'] = Iff(cx.it.truth(result), And(Not(sc.isnone), zint(sc.val) == 200))
        else:
            out['no_reply_means_failure'] = result is False
        return out
