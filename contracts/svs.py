"""Contracts for ndn/app_support/svs/sync.py (property C18). State vectors are maps over opaque node ids."""
import logging
import time
import z3
from ndn.app_support.svs import sync
from ndn.app_support.svs.sync import SvsState
from ndn.encoding.name import Name
from ndn.encoding import tlv_model as tm
from pyvc.zutil import *
from pyvc.contracts import Contract, contract, LoopSpec
from pyvc.run import View, Unsupported
from pyvc.values import SymObj, Opaque, PyExc, OptInt
from pyvc.symseq import SymMap, LazyDict, KeyTok, BufSeq, BOOLROW
from contracts.assumed_aio import _M, UserFn


def sym_dict(run, label):
    d = LazyDict()
    d.sym = run.input_symmap(label)
    return d


def get0(m, k):
    """m.get(k, 0) as a term over key id k"""
    return z3.If(z3.Select(m.dom, k), z3.Select(m.val, k), 0)


def zmax(a, b):
    return z3.If(a >= b, a, b)


class Event:
    def __init__(self):
        self.sets = 0
        self.clears = 0

    def getattr_(self, it, name, node):
        if name == 'set':
            def f(it_):
                self.sets += 1
            return _M(f)
        if name == 'clear':
            def f(it_):
                self.clears += 1
            return _M(f)
        raise Unsupported(f'Event.{name}')


def mk_inst(cx, state=None):
    run = cx.run
    if state is None:
        k = run.choose([('steady', True), ('suppression', True)], 'state')
        state = SvsState.SyncSteady if k == 'steady' else SvsState.SyncSuppression
    run.input_const('state', state.name)
    ev = Event()
    missing = UserFn('on_missing_data')
    self_seq = run.input_int('self_seq')
    run.assume(self_seq >= 0)
    inst = SymObj(sync.SvsInst, dict(
        local_sv=sym_dict(run, 'local_sv'), agg_sv=sym_dict(run, 'agg_sv'), state=state, self_seq=self_seq,
        self_node_id=KeyTok(run.fresh_int('self_id'), 'self_node_id'), running=True, timer_rst_event=ev,
        next_sync_timing=0.0, logger=logging.getLogger('ndn.app_support.svs.sync'), on_missing_data=missing,
        base_prefix=None, sync_interval=30, suppression_interval=0.2, ndn_app=None))
    # sequence numbers are non-negative
    k = z3.Int('k!nn')
    for m in (inst.d['local_sv'].sym, inst.d['agg_sv'].sym):
        run.assume(z3.ForAll([k], z3.Select(m.val, k) >= 0))
    run.ghost['svs'] = dict(event=ev, missing=missing)
    return inst


# ----------------------------------------------------------------------------- aggregate
def _agg_inv(it, env, g):
    self_ = env['self']
    agg, agg0 = self_.d['agg_sv'].sym, it.run.ghost['agg0']
    rsv = g['map']
    V = g['visited']
    k = z3.Int('k!agg')
    return {'visited_entries_are_merged': z3.ForAll([k], z3.Implies(z3.Select(V, k), z3.And(
        z3.Select(agg.dom, k), z3.Select(agg.val, k) == zmax(get0(agg0, k), z3.Select(rsv.val, k))))),
            'other_entries_untouched': z3.ForAll([k], z3.Implies(z3.Not(z3.Select(V, k)), z3.And(
                z3.Select(agg.dom, k) == z3.Select(agg0.dom, k), z3.Select(agg.val, k) == z3.Select(agg0.val, k))))}


def _agg_havoc(it, env, g):
    env['self'].d['agg_sv'].sym = SymMap.fresh(it.run, 'agg_sv')
    return env['self']


@contract
class aggregate(Contract):
    fn = sync.SvsInst.aggregate
    props = ('C18',)
    doc = ('aggregate: the merge of the vectors heard during the suppression period becomes the entry-wise maximum of its '
           'previous value and the received vector (entries not mentioned are untouched); the local vector is not changed')
    loops = {1: LoopSpec(_agg_inv, havoc={'self': _agg_havoc})}

    def setup(self, cx):
        inst = mk_inst(cx, SvsState.SyncSuppression)
        cx.run.ghost['agg0'] = inst.d['agg_sv'].sym.copy()
        cx.run.ghost['local0'] = inst.d['local_sv'].sym.copy()
        rsv = sym_dict(cx.run, 'rsv_dict')
        k = z3.Int('k!nn')
        cx.run.assume(z3.ForAll([k], z3.Select(rsv.sym.val, k) >= 0))
        return dict(self=inst, rsv_dict=rsv)

    def post(c, cx, result, self, rsv_dict):
        agg, agg0 = self.d['agg_sv'].sym, cx.run.ghost['agg0']
        rsv = rsv_dict.sym
        k = z3.Int('k!post')
        return {'entrywise_maximum': z3.ForAll([k], z3.If(z3.Select(rsv.dom, k),
                                                          z3.And(z3.Select(agg.dom, k),
                                                                 z3.Select(agg.val, k) == zmax(get0(agg0, k), z3.Select(rsv.val, k))),
                                                          z3.And(z3.Select(agg.dom, k) == z3.Select(agg0.dom, k),
                                                                 z3.Select(agg.val, k) == z3.Select(agg0.val, k)))),
                'local_vector_unchanged': self.d['local_sv'].sym.same_as(cx.run.ghost['local0'])}

    def result(c, cx, self, rsv_dict):
        agg0 = self.d['agg_sv'].sym
        new = SymMap.fresh(cx.run, 'agg_sv')
        rsv = rsv_dict.sym
        k = z3.Int('k!res')
        cx.run.assume(z3.ForAll([k], z3.If(z3.Select(rsv.dom, k),
                                           z3.And(z3.Select(new.dom, k), z3.Select(new.val, k) == zmax(get0(agg0, k), z3.Select(rsv.val, k))),
                                           z3.And(z3.Select(new.dom, k) == z3.Select(agg0.dom, k),
                                                  z3.Select(new.val, k) == z3.Select(agg0.val, k)))))
        self.d['agg_sv'].sym = new
        return None

    def post_assumed(c, cx, result, self, rsv_dict):
        return {}


# ----------------------------------------------------------------------------- environment for sync_handler
class FloatTok:
    """an opaque float (wall-clock arithmetic is not part of the property)"""

    def binop_(self, it, op, other, node):
        return FloatTok()

    def rbinop_(self, it, op, other, node):
        return FloatTok()

    def compare(self, it, op, other, node):
        """comparing two instants: either way (a ghost boolean, remembered for the postconditions)"""
        b = it.run.fresh_bool('instant_cmp')
        it.run.ghost.setdefault('svs.cmps', []).append(b)
        return b

    def rcompare(self, it, op, other, node):
        return self.compare(it, op, other, node)


class NameTok:
    """a node id (a Name) known only through its ghost identity"""
    opaque_value = True          # stands for an unknown value of a library type: foreign contracts do not know it

    def __init__(self, kid):
        self.kid = kid

    def truth(self, it):
        return True


class EntryRec:
    def __init__(self, seq, j):
        self.seq, self.j = seq, j

    def getattr_(self, it, name, node):
        s, j = self.seq, zint(self.j)
        if name == 'node_id':
            if it.run.branch(z3.Select(s.has_id, j), 'entry.has_node_id'):
                return NameTok(z3.Select(s.ids, j))
            return None
        if name == 'seq_no':
            return OptInt(z3.Select(s.seq_none, j), z3.Select(s.seqs, j))
        raise Unsupported(f'StateVecEntry.{name}')


class EntrySeq:
    """the entries of a received state vector: any number of (optional node id, optional sequence number) pairs"""

    def __init__(self, run):
        self.n = run.fresh_int('n_entries')
        run.assume(self.n >= 0)
        self.has_id = z3.Const(run.fresh_name('has_id'), BOOLROW)
        self.seq_none = z3.Const(run.fresh_name('seq_none'), BOOLROW)
        self.ids = run.fresh_row('ids')
        self.seqs = run.fresh_row('seqs')
        j = z3.Int('j!nn')
        run.assume(z3.ForAll([j], z3.And(z3.Select(self.seqs, j) >= 0, z3.Select(self.seqs, j) < 2 ** 64)))

    def ok(self, j):
        """entry j takes part in the merge: it names a node and carries a sequence number"""
        return z3.And(z3.Select(self.has_id, j), z3.Not(z3.Select(self.seq_none, j)))

    def seq_len(self):
        return self.n

    def elem(self, it, i):
        return EntryRec(self, i)

    def truth(self, it):
        return simp(self.n != 0)

    def iterate(self, it, node):
        raise Unsupported('entries need a loop specification')


class _Holder:
    def __init__(self, **kw):
        self.__dict__.update(kw)

    def getattr_(self, it, name, node):
        return self.__dict__[name]


@contract
class name_to_bytes_for_ids(Contract):
    """call-site summary: the encoding of a node id as a dict key = its ghost identity"""
    fn = Name.to_bytes
    assumed = True

    def use_contract_at(c, it, args, kwargs):
        return isinstance(args[0], NameTok)

    def result(c, cx, name):
        return KeyTok(name.kid, 'node_id')


def _time_model(it, args, kwargs, node):
    return FloatTok()


def _install():
    from pyvc import models
    models.BUILTIN_MODELS[time.time] = _time_model


_install()


@contract
class sample_sup_timer(Contract):
    fn = sync.SvsInst.sample_sup_timer
    assumed = True

    def result(c, cx, self):
        return FloatTok()


@contract
class sample_sync_timer(Contract):
    fn = sync.SvsInst.sample_sync_timer
    assumed = True

    def result(c, cx, self):
        return FloatTok()


def _l1_inv(it, env, g):
    run = it.run
    es = run.ghost['svs.entries']
    R = env['rsv_dict'].sym if isinstance(env['rsv_dict'], LazyDict) and env['rsv_dict'].sym is not None else SymMap(run, 'empty')
    W = g['W']
    i = zint(g['i'])
    self_ = env['self']
    k, j = z3.Int('k!l1'), z3.Int('j!l1')
    wk = z3.Select(W, k)
    none = R.none if R.none is not None else z3.K(INT, z3.BoolVal(False))
    return {
        'every_key_comes_from_an_entry': z3.ForAll([k], z3.Implies(z3.Select(R.dom, k), z3.And(
            wk >= 0, wk < i, es.ok(wk), z3.Select(es.ids, wk) == k, z3.Select(R.val, k) == z3.Select(es.seqs, wk),
            z3.Not(z3.Select(none, k))))),
        'every_entry_so_far_is_a_key': z3.ForAll([j], z3.Implies(z3.And(j >= 0, j < i, es.ok(j)), z3.Select(R.dom, z3.Select(es.ids, j)))),
        'never_more_for_this_node_than_produced': z3.Implies(z3.Select(R.dom, zint(self_.d['self_node_id'].kid)),
                                                           z3.Select(R.val, zint(self_.d['self_node_id'].kid)) <= zint(self_.d['self_seq'])),
    }


def _l1_ghost(it, env, g):
    if isinstance(env['rsv_dict'], LazyDict) and env['rsv_dict'].sym is None:
        env['rsv_dict'].sym = SymMap(it.run, 'rsv_dict')
    return {'W': z3.K(INT, z3.IntVal(-1))}


def _l1_havoc_R(it, env, g):
    d = LazyDict()
    d.sym = SymMap.fresh(it.run, 'rsv_dict')
    d.sym.none = z3.Const(it.run.fresh_name('rsv_none'), BOOLROW)
    g['W'] = it.run.fresh_row('W')
    g['R_head'] = (d.sym.dom, d.sym.val)
    return d


def _l1_update(it, pre, env, g):
    """ghost: remember which entry produced the key written in this iteration (none if the entry was skipped)"""
    es = it.run.ghost['svs.entries']
    i = zint(g['i'])
    R1 = env['rsv_dict'].sym
    if R1.dom is not g['R_head'][0] or R1.val is not g['R_head'][1]:
        g['W'] = z3.Store(g['W'], z3.Select(es.ids, i), i)


def _l2_inv(it, env, g):
    run = it.run
    self_ = env['self']
    L, L0 = self_.d['local_sv'].sym, run.ghost['svs.local0']
    R, V = g['map'], g['visited']
    k = z3.Int('k!l2')
    raised = get0(L0, k) < z3.Select(R.val, k)
    nf = it.truth(env['need_fetch'])
    return {
        'visited_entries_merged': z3.ForAll([k], z3.Implies(z3.Select(V, k), z3.If(
            raised, z3.And(z3.Select(L.dom, k), z3.Select(L.val, k) == z3.Select(R.val, k)),
            z3.And(z3.Select(L.dom, k) == z3.Select(L0.dom, k), z3.Select(L.val, k) == z3.Select(L0.val, k))))),
        'unvisited_entries_untouched': z3.ForAll([k], z3.Implies(z3.Not(z3.Select(V, k)), z3.And(
            z3.Select(L.dom, k) == z3.Select(L0.dom, k), z3.Select(L.val, k) == z3.Select(L0.val, k)))),
        'need_fetch_iff_some_entry_raised': zbool(nf) == z3.Exists([k], z3.And(z3.Select(V, k), raised)),
        'need_notif_iff_unknown_node_or_visited_entry_behind': zbool(it.truth(env['need_notif'])) == z3.Or(
            z3.Exists([k], z3.And(z3.Select(R.dom, k), z3.Not(z3.Select(L0.dom, k)))),
            z3.Exists([k], z3.And(z3.Select(V, k), get0(L0, k) > z3.Select(R.val, k)))),
    }


def _l2_havoc_self(it, env, g):
    env['self'].d['local_sv'].sym = SymMap.fresh(it.run, 'local_sv')
    return env['self']


@contract
class sync_handler(Contract):
    fn = sync.SvsInst.sync_handler
    props = ('C18',)
    doc = ('sync_handler, for a received vector with ANY number of entries: a malformed Interest, an undecodable or empty vector, '
           'or a vector claiming more for this node than it produced is ignored entirely (no state change, no callback); '
           'otherwise the local vector becomes the entry-wise maximum of its previous value and the received entries (never '
           'decreasing, other nodes untouched) and the missing-data callback fires exactly once iff some entry was raised; '
           'a steady instance enters suppression iff the sender is behind in some entry or names a node unknown here, and '
           'the merge of that period then starts as exactly this vector (nothing of an earlier period survives); in '
           'suppression the merge becomes the entry-wise maximum with this vector and the timer is left running; nothing is raised')
    raises = {}
    loops = {1: LoopSpec(_l1_inv, ghost=_l1_ghost, havoc={'rsv_dict': _l1_havoc_R, 'rsv': lambda it, env, g: None,
                                                        'rsv_id': lambda it, env, g: None, 'rsv_seq': lambda it, env, g: None},
                         update=_l1_update),
             2: LoopSpec(_l2_inv, havoc={'self': _l2_havoc_self, 'lsv_seq': lambda it, env, g: None,
                                         'rsv_id': lambda it, env, g: None, 'rsv_seq': lambda it, env, g: None})}

    def setup(self, cx):
        run = cx.run
        inst = mk_inst(cx)
        inst.d['base_prefix'] = [Opaque('token', 'prefix0')]
        run.ghost['svs.local0'] = inst.d['local_sv'].sym.copy()
        run.ghost['svs.agg0'] = inst.d['agg_sv'].sym.copy()
        es = EntrySeq(run)
        run.ghost['svs.entries'] = es
        from ndn.app_support.svs.tlv import StateVecWrapper

        def parse_override(it, wire, markers):
            k = it.run.choose([('val=None', True), ('val', True)], 'StateVecWrapper.val')
            run.ghost['svs.decoded'] = k == 'val'
            return _Holder(val=None if k == 'val=None' else _Holder(entries=es))
        run.ghost['parse_override'] = {StateVecWrapper: parse_override}
        nk = run.choose([('name of wrong length', True), ('sync interest name', True)], 'name')
        sv = run.input_buf('state_vector_component', 'bytes')
        name = [Opaque('token', 'prefix0'), sv] if nk == 'name of wrong length' else [Opaque('token', 'prefix0'), sv, Opaque('token', 'digest')]
        return dict(self=inst, name=name, _app_param=None, _reply=None, _context={})

    def post(c, cx, result, self, name, _app_param, _reply, _context):
        run = cx.run
        g = run.ghost
        es = g['svs.entries']
        L, L0 = self.d['local_sv'].sym, g['svs.local0']
        missing = g['svs']['missing']
        loc = cx.it.top_locals
        k, j = z3.Int('k!post'), z3.Int('j!post')
        out = {'callback_at_most_once': len(missing.calls) <= 1}
        accepted = 'need_fetch' in loc          # the merge loop was reached
        if not accepted:
            out['ignored_entirely_state_unchanged'] = And(L.same_as(L0), self.d['agg_sv'].sym.same_as(g['svs.agg0']),
                                                          self.d['state'] is SvsState[next(v for n, kk, v in run.inputs if n == 'state')])
            out['ignored_entirely_no_callback'] = len(missing.calls) == 0
            if loc.get('rsv_id') is not None and loc.get('rsv_seq') is not None:
                # ignored from inside the scan of the entries: only for an entry about this node that claims more than produced
                rs = loc['rsv_seq']
                out['ignored_only_if_it_claims_more_for_this_node'] = And(
                    zint(loc['rsv_id'].kid) == zint(self.d['self_node_id'].kid),
                    zint(rs.val if isinstance(rs, OptInt) else rs) > zint(self.d['self_seq']))
            return out
        R = loc['rsv_dict'].sym
        raised = get0(L0, k) < z3.Select(R.val, k)
        out['entrywise_maximum_never_decreasing'] = z3.ForAll([k], z3.If(
            z3.And(z3.Select(R.dom, k), raised),
            z3.And(z3.Select(L.dom, k), z3.Select(L.val, k) == z3.Select(R.val, k)),
            z3.And(z3.Select(L.dom, k) == z3.Select(L0.dom, k), z3.Select(L.val, k) == z3.Select(L0.val, k))))
        out['merged_vector_is_the_received_entries'] = z3.ForAll([j], z3.Implies(
            z3.And(j >= 0, j < es.n, es.ok(j)), z3.And(z3.Select(R.dom, z3.Select(es.ids, j)),
                                                       z3.Select(L.val, z3.Select(es.ids, j)) >= 0)))
        some_raised = z3.Exists([k], z3.And(z3.Select(R.dom, k), raised))
        out['callback_iff_some_entry_raised'] = zbool(len(missing.calls) == 1) == some_raised
        # the merge of the vectors heard during a suppression period (what on_timer compares the local vector with)
        st0 = SvsState[next(v for n, kk, v in run.inputs if n == 'state')]
        A, A0 = self.d['agg_sv'].sym, g['svs.agg0']
        ev = g['svs']['event']
        behind = z3.Exists([k], z3.And(z3.Select(R.dom, k), z3.Or(z3.Not(z3.Select(L0.dom, k)), get0(L0, k) > z3.Select(R.val, k))))
        if st0 is SvsState.SyncSuppression:
            out['suppression_period_accumulates_every_vector_heard'] = And(
                self.d['state'] is SvsState.SyncSuppression,
                z3.ForAll([k], z3.If(z3.Select(R.dom, k),
                                     z3.And(z3.Select(A.dom, k), z3.Select(A.val, k) == zmax(get0(A0, k), z3.Select(R.val, k))),
                                     z3.And(z3.Select(A.dom, k) == z3.Select(A0.dom, k), z3.Select(A.val, k) == z3.Select(A0.val, k)))))
            out['running_suppression_timer_not_restarted'] = ev.sets == 0
        elif self.d['state'] is SvsState.SyncSuppression:
            out['suppression_entered_only_when_the_sender_is_behind_or_names_unknown_nodes'] = behind
            out['a_new_suppression_period_starts_from_this_vector_alone'] = A.same_as(R)
            out['suppression_timer_started'] = ev.sets == 1
        else:
            out['steady_state_kept_only_when_the_sender_is_not_behind'] = And(self.d['state'] is SvsState.SyncSteady, Not(behind))
            out['steady_state_leaves_the_aggregate_alone'] = A.same_as(A0)
            # the periodic timer is pushed back - unless a sync Interest is due right now (a publication waiting for the timer
            # task): then the timer is left alone, so that the publication is announced promptly
            cmps = g.get('svs.cmps', [])
            out['periodic_timer_restarted_unless_an_interest_is_due_now'] = len(cmps) == 1 and \
                Or(And(cmps[0], ev.sets == 1, isinstance(self.d['next_sync_timing'], FloatTok)),
                   And(Not(cmps[0]), ev.sets == 0, self.d['next_sync_timing'] == 0.0))
        return out


# ----------------------------------------------------------------------------- new_data, on_timer (announce exactly when needed)
import asyncio as _aio                                                # noqa: E402
from pyvc.values import CoroVal                                       # noqa: E402


@contract
class new_data(Contract):
    fn = sync.SvsInst.new_data
    props = ('C18',)
    doc = ('new_data: the own sequence number grows by exactly one, the local vector records it for this node and nothing else '
           'changes in it, the instance goes to the steady state with the sync timer due at once, and the timer task is woken iff '
           'the instance is running; the new sequence number is returned')
    raises = {}

    def setup(self, cx):
        run = cx.run
        inst = mk_inst(cx)
        inst.d['running'] = run.choose([(True, True), (False, True)], 'running')
        run.ghost['svs.local0'] = inst.d['local_sv'].sym.copy()
        run.ghost['svs.seq0'] = inst.d['self_seq']
        return dict(self=inst)

    def post(c, cx, result, self):
        g = cx.run.ghost
        L, L0 = self.d['local_sv'].sym, g['svs.local0']
        me = zint(self.d['self_node_id'].kid)
        k = z3.Int('k!nd')
        ev = g['svs']['event']
        return {'sequence_number_grows_by_one_and_is_returned': And(Eq(zint(self.d['self_seq']), zint(g['svs.seq0']) + 1),
                                                                    Eq(zint(result), zint(self.d['self_seq']))),
                'local_vector_records_it_for_this_node_only': z3.ForAll([k], z3.If(
                    k == me, z3.And(z3.Select(L.dom, k), z3.Select(L.val, k) == zint(self.d['self_seq'])),
                    z3.And(z3.Select(L.dom, k) == z3.Select(L0.dom, k), z3.Select(L.val, k) == z3.Select(L0.val, k)))),
                'steady_state_timer_due_at_once': self.d['state'] is SvsState.SyncSteady and self.d['next_sync_timing'] == 0,
                'timer_task_woken_iff_running': ev.sets == (1 if self.d['running'] else 0)}


@contract
class express_sync_interest_summary(Contract):
    """call-site summary inside on_timer: one sync Interest is emitted (its content: bounded stand-in)"""
    fn = sync.SvsInst.express_sync_interest
    assumed = True

    def use_contract_at(c, it, args, kwargs):
        return 'svs.timer' in it.run.ghost

    def result(c, cx, self):
        cx.run.ghost['svs.timer']['sent'] += 1
        return None


class TimerEvent(Event):
    def getattr_(self, it, name, node):
        if name == 'wait':
            return _M(lambda it_: CoroVal(lambda: True, 'Event.wait'))
        return super().getattr_(it, name, node)


def _timer_wait_for(base):
    def model(it, args, kwargs, node):
        if 'svs.timer' not in it.run.ghost:
            return base(it, args, kwargs, node)

        def thunk():
            tag = it.run.choose([('event', True), (TimeoutError, True), (_aio.CancelledError, True)], 'wait_for')
            it.run.ghost['svs.timer']['outcome'] = tag
            if tag == 'event':
                return True
            raise PyExc(tag, ('from wait_for',), getattr(node, 'lineno', None), it.where())
        return CoroVal(thunk, 'wait_for')
    return model


def _install_timer():
    from pyvc import models
    base = models.BUILTIN_MODELS.get(_aio.wait_for) or models.REAL_FUNCTION_MODELS.get(_aio.wait_for)
    m = _timer_wait_for(base)
    models.REAL_FUNCTION_MODELS[_aio.wait_for] = m
    models.BUILTIN_MODELS[_aio.wait_for] = m
    old_max = models.BUILTIN_MODELS.get(max)

    def m_max(it, args, kwargs, node):
        if any(isinstance(a, FloatTok) for a in args):
            return FloatTok()
        return old_max(it, args, kwargs, node)
    models.BUILTIN_MODELS[max] = m_max


def _timer_inv(it, env, g):
    self_ = env['self']
    k = z3.Int('k!ti')
    L, A = self_.d['local_sv'].sym, self_.d['agg_sv'].sym
    return {'sequence_numbers_nonnegative': z3.ForAll([k], z3.And(z3.Select(L.val, k) >= 0, z3.Select(A.val, k) >= 0))}


def _timer_havoc(it, env, g):
    run = it.run
    self_ = env['self']
    t = run.ghost['svs.timer']
    self_.d['running'] = run.fresh_bool('running')
    st = run.choose([('steady', True), ('suppression', True)], 'state at head')
    self_.d['state'] = SvsState.SyncSteady if st == 'steady' else SvsState.SyncSuppression
    self_.d['local_sv'].sym = SymMap.fresh(run, 'local_sv')
    self_.d['agg_sv'].sym = SymMap.fresh(run, 'agg_sv')
    ev = TimerEvent()
    self_.d['timer_rst_event'] = ev
    t.update(sent=0, outcome=None, state0=self_.d['state'], local0=self_.d['local_sv'].sym, agg0=self_.d['agg_sv'].sym, event=ev)
    return self_


def _scan_inv(it, env, g):
    """suppression scan: nothing found yet that the aggregate does not cover"""
    self_ = env['self']
    A = self_.d['agg_sv'].sym
    m, V = g['map'], g['visited']
    k = z3.Int('k!sc')
    return {'no_visited_entry_exceeds_the_aggregate': And(env['necessary'] is False or Not(env['necessary']) if is_sym(env['necessary']) else env['necessary'] is False,
                                                            z3.ForAll([k], z3.Implies(z3.Select(V, k), get0(A, k) >= z3.Select(m.val, k))))}


def _timer_step(it, pre, env, g):
    run = it.run
    t = run.ghost['svs.timer']
    self_ = env['self']
    L, A = t['local0'], t['agg0']
    k = z3.Int('k!ts')
    out = {'vectors_untouched_by_the_timer': self_.d['local_sv'].sym is L and self_.d['agg_sv'].sym is A}
    if t['outcome'] == 'event':
        out['woken_by_a_reset_nothing_is_sent'] = t['sent'] == 0 and self_.d['state'] is t['state0'] and t['event'].clears == 1
        return out
    # the timer fired while running
    out['back_to_steady_state'] = self_.d['state'] is SvsState.SyncSteady
    out['timer_rearmed'] = t['event'].clears == 1 and isinstance(self_.d['next_sync_timing'], FloatTok)
    behind = z3.Exists([k], z3.And(z3.Select(L.dom, k), get0(A, k) < z3.Select(L.val, k)))
    if t['state0'] is SvsState.SyncSteady:
        out['steady_state_timer_always_announces_once'] = t['sent'] == 1
    else:
        out['after_suppression_announce_iff_someone_heard_is_behind'] = And(t['sent'] <= 1, Iff(t['sent'] == 1, behind))
    return out


@contract
class on_timer(Contract):
    fn = sync.SvsInst.on_timer
    props = ('C18',)
    doc = ('on_timer, one iteration from ANY state and ANY vectors (loop step contract): woken by a reset it sends nothing; when the '
           'timer fires in the steady state exactly one sync Interest is sent; when it fires after a suppression period the instance '
           'returns to the steady state and sends one iff some entry of the local vector is larger than what the aggregate of the '
           'vectors heard covers; the vectors themselves are not touched; a cancellation ends the task; nothing is raised')
    raises = {}
    loops = {1: LoopSpec(_timer_inv, havoc={'self': _timer_havoc}, step=_timer_step),
             2: LoopSpec(_scan_inv, havoc={'lsv_id': lambda it, env, g: None, 'lsv_seq': lambda it, env, g: None})}

    def setup(self, cx):
        run = cx.run
        inst = mk_inst(cx)
        inst.d['timer_rst_event'] = TimerEvent()
        run.ghost['svs.timer'] = dict(sent=0, outcome=None, state0=inst.d['state'], local0=inst.d['local_sv'].sym,
                                      agg0=inst.d['agg_sv'].sym, event=inst.d['timer_rst_event'])
        return dict(self=inst)

    def post(c, cx, result, self):
        return {}


_install_timer()


# ----------------------------------------------------------------------------- start / stop
class AppM:
    def __init__(self):
        self.log = []

    def getattr_(self, it, name, node):
        if name in ('attach_handler', 'detach_handler'):
            return _M(lambda it_, *a: self.log.append((name, a)))
        raise Unsupported(f'app.{name}')


def _event_factory(it, args, kwargs, node):
    e = TimerEvent()
    it.run.ghost.setdefault('svs.events_created', []).append(e)
    return e


def _install_ss():
    from pyvc import models
    models.BUILTIN_MODELS[_aio.Event] = _event_factory


_install_ss()


@contract
class to_str_sync_prefix(Contract):
    """used only inside an error message"""
    fn = Name.to_str
    assumed = True

    def use_contract_at(c, it, args, kwargs):
        return isinstance(args[0], Opaque) and args[0].typ == 'sync_prefix'

    def result(c, cx, name):
        return '<uri>'


@contract
class on_timer_summary(Contract):
    """call-site summary inside start(): the timer coroutine (its own contract is above)"""
    fn = sync.SvsInst.on_timer
    assumed = True

    def use_contract_at(c, it, args, kwargs):
        return 'svs.ss' in it.run.ghost

    def result(c, cx, self):
        cx.run.ghost['svs.ss']['timer_started'] += 1
        return None


@contract
class svs_start(Contract):
    fn = sync.SvsInst.start
    props = ('C18',)
    doc = ('SvsInst.start: refused with RuntimeError when already running (nothing changes); otherwise the instance runs, gets a fresh '
           'reset event, records its own sequence number in the local vector when it has produced data, attaches sync_handler with '
           'the Interest validator at exactly the sync prefix and starts the timer task once')
    raises = {RuntimeError: lambda cx, self, ndn_app: cx.run.ghost['svs.ss']['was'] is True}
    exact_raises = True

    def setup(self, cx):
        run = cx.run
        inst = mk_inst(cx)
        inst.d['running'] = run.choose([(False, True), (True, True)], 'running')
        sk = run.choose([('has produced data', True), ('nothing produced yet', True)], 'self_seq')
        if sk == 'nothing produced yet':
            inst.d['self_seq'] = -1
        inst.d['base_prefix'] = Opaque('sync_prefix', 'sync prefix')
        inst.d['int_validator'] = Opaque('validator', 'interest validator')
        run.ghost['svs.ss'] = dict(timer_started=0, local0=inst.d['local_sv'].sym.copy(), sk=sk, was=inst.d['running'])
        return dict(self=inst, ndn_app=AppM())

    def xpost(c, cx, exc, self, ndn_app):
        g = cx.run.ghost['svs.ss']
        return {'refused_start_changes_nothing': ndn_app.log == [] and g['timer_started'] == 0 and self.d['local_sv'].sym.same_as(g['local0'])}

    def post(c, cx, result, self, ndn_app):
        g = cx.run.ghost['svs.ss']
        L, L0 = self.d['local_sv'].sym, g['local0']
        me = zint(self.d['self_node_id'].kid)
        k = z3.Int('k!st')
        evs = cx.run.ghost.get('svs.events_created', [])
        out = {'running_with_a_fresh_reset_event': self.d['running'] is True and len(evs) == 1 and self.d['timer_rst_event'] is evs[0],
               'handler_attached_at_the_sync_prefix_with_the_validator': len(ndn_app.log) == 1 and ndn_app.log[0][0] == 'attach_handler' and
               ndn_app.log[0][1][0] is self.d['base_prefix'] and ndn_app.log[0][1][2] is self.d['int_validator'] and self.d['ndn_app'] is ndn_app,
               'timer_task_started_once': g['timer_started'] == 1}
        if g['sk'] == 'has produced data':
            out['own_sequence_number_recorded'] = z3.ForAll([k], z3.If(
                k == me, z3.And(z3.Select(L.dom, k), z3.Select(L.val, k) == zint(self.d['self_seq'])),
                z3.And(z3.Select(L.dom, k) == z3.Select(L0.dom, k), z3.Select(L.val, k) == z3.Select(L0.val, k))))
        else:
            out['local_vector_untouched'] = L.same_as(L0)
        return out


@contract
class svs_stop(Contract):
    fn = sync.SvsInst.stop
    props = ('C18',)
    doc = ('SvsInst.stop: a stopped instance is left alone; a running one stops, wakes the timer task so that it ends, detaches its '
           'handler from exactly the sync prefix and forgets the task')
    raises = {}

    def setup(self, cx):
        run = cx.run
        inst = mk_inst(cx)
        inst.d['running'] = run.choose([(False, True), (True, True)], 'running')
        inst.d['base_prefix'] = Opaque('token', 'sync prefix')
        app_ = AppM()
        inst.d['ndn_app'] = app_
        inst.d['timer_task'] = Opaque('task', 'timer task')
        run.ghost['svs.stop'] = dict(app=app_, was=inst.d['running'])
        return dict(self=inst)

    def post(c, cx, result, self):
        g = cx.run.ghost['svs.stop']
        ev = cx.run.ghost['svs']['event']
        if g['was'] is False:
            return {'stopped_instance_left_alone': g['app'].log == [] and ev.sets == 0 and self.d['timer_task'] is not None}
        return {'stops_and_wakes_the_timer_task': self.d['running'] is False and ev.sets == 1,
                'handler_detached_from_the_sync_prefix': g['app'].log == [('detach_handler', (self.d['base_prefix'],))],
                'task_forgotten': self.d['timer_task'] is None}


# ----------------------------------------------------------------------------- express_sync_interest: the emitted vector (C18)
class OutEntries:
    """the entries list of the vector being built: any number of (node id, sequence number) pairs in insertion order.  Ghost:
    idx[k] = the position at which node id k was appended last (maintained by append itself; it is the Skolem witness of
    'every local entry is carried')"""

    def __init__(self, run, fresh=True):
        self.run = run
        if fresh:
            self.n = run.fresh_int('n_out')
            self.ids, self.seqs, self.idx = run.fresh_row('out_ids'), run.fresh_row('out_seqs'), run.fresh_row('out_idx')
        else:
            self.n = 0
            self.ids = self.seqs = self.idx = z3.K(INT, z3.IntVal(0))
        self.bad = []               # appended things that are not (node id, integer) entries

    def append(self, it, cur):
        d = getattr(cur, 'd', None)
        nid, seq = (d.get('node_id'), d.get('seq_no')) if isinstance(d, dict) else (None, None)
        if not isinstance(nid, NameTok) or seq is None or isinstance(seq, OptInt):
            self.bad.append(cur)
            return None
        n = zint(self.n)
        self.ids = z3.Store(self.ids, n, zint(nid.kid))
        self.seqs = z3.Store(self.seqs, n, zint(seq))
        self.idx = z3.Store(self.idx, zint(nid.kid), n)
        self.n = simp(n + 1)
        return None

    def getattr_(self, it, name, node):
        if name == 'append':
            return _M(lambda it_, v: self.append(it_, v))
        raise Unsupported(f'list.{name} on the entries being built')


class PrefixTok:
    """the sync prefix (a list of components): only `prefix + [component]` is used"""

    def binop_(self, it, op, other, node):
        import ast as _ast
        if isinstance(op, _ast.Add) and isinstance(other, list):
            return _Holder(prefix=self, tail=list(other))
        raise Unsupported('operation on the sync prefix')


class AppX:
    def __init__(self):
        self.calls = []

    def getattr_(self, it, name, node):
        if name == 'express':
            return _M(lambda it_, *a, **kw: self.calls.append((a, kw)))
        raise Unsupported(f'app.{name}')


def _entries_of(sv_pkt):
    val = sv_pkt.d.get('val') if hasattr(sv_pkt, 'd') else None
    ent = val.d.get('entries') if val is not None and hasattr(val, 'd') else None
    return val, ent


def _esi_view(ent):
    """(n, ids, seqs, idx) of the entries built so far; a plain list is acceptable only while it is empty"""
    if isinstance(ent, OutEntries):
        return ent
    if isinstance(ent, list) and not ent:
        return OutEntries(None, fresh=False)
    return None


def _esi_inv(it, env, g):
    val, ent = _entries_of(env['sv_pkt'])
    E = _esi_view(ent)
    if E is None or E.bad:
        return {'entries_are_node_id_and_sequence_number_pairs': False}
    L, V = g['map'], g['visited']
    k, j = z3.Int('k!esi'), z3.Int('j!esi')
    n = zint(E.n)
    return {'entries_are_node_id_and_sequence_number_pairs': True,
            'count_nonnegative': n >= 0,
            'every_visited_local_entry_is_carried_with_its_sequence_number': z3.ForAll([k], z3.Implies(z3.Select(V, k), z3.And(
                z3.Select(E.idx, k) >= 0, z3.Select(E.idx, k) < n, z3.Select(E.ids, z3.Select(E.idx, k)) == k,
                z3.Select(E.seqs, z3.Select(E.idx, k)) == z3.Select(L.val, k)))),
            'every_carried_entry_is_a_visited_local_entry_carried_once': z3.ForAll([j], z3.Implies(z3.And(j >= 0, j < n), z3.And(
                z3.Select(V, z3.Select(E.ids, j)), z3.Select(E.idx, z3.Select(E.ids, j)) == j)))}


def _esi_havoc(it, env, g):
    sv = env['sv_pkt']
    val, ent = _entries_of(sv)
    if val is None or not isinstance(ent, (list, OutEntries)):
        raise Unsupported('the vector under construction is not a wrapper with an entries list')
    val.d['entries'] = OutEntries(it.run)
    return sv


@contract
class encode_sync_vector(Contract):
    """call-site summary inside express_sync_interest: the wire of the vector object (TlvModel.encode is verified generically
    and for RepeatedField / ModelField / NameField / UintField under C08); here the wire is a token that remembers the object"""
    fn = tm.TlvModel.encode
    assumed = True

    def use_contract_at(c, it, args, kwargs):
        return 'svs.esi' in it.run.ghost and len(args) == 1 and not kwargs

    def result(c, cx, **p):
        obj = list(p.values())[0]
        return Opaque('wire_of', 'encoded state vector', dict(obj=obj))


@contract
class name_from_bytes_for_ids(Contract):
    """call-site summary: decoding a dict key (the encoding of a node id) gives back the node id = its ghost identity (the
    inverse of name_to_bytes_for_ids; Name.encode / Name.decode round trip: C09)"""
    fn = Name.from_bytes
    assumed = True

    def use_contract_at(c, it, args, kwargs):
        return 'svs.esi' in it.run.ghost and isinstance(args[0], KeyTok)

    def result(c, cx, buf):
        return NameTok(buf.kid)


@contract
class express_sync_interest(Contract):
    fn = sync.SvsInst.express_sync_interest
    props = ('C18',)
    doc = ('express_sync_interest, local vector with ANY number of entries: exactly one Interest is expressed, without waiting for a '
           'reply, signed with the configured Interest signer, named <sync prefix>/<encoded vector>, and the vector carries EVERY '
           'entry of the local vector exactly once with its current sequence number and nothing else (the full vector); the local '
           'vector itself is not changed')
    raises = {}
    loops = {1: LoopSpec(_esi_inv, havoc={'sv_pkt': _esi_havoc, 'cur': lambda it, env, g: None,
                                          'lsv_id': lambda it, env, g: None, 'lsv_seq': lambda it, env, g: None})}

    def use_contract_at(c, it, args, kwargs):
        return False            # inside on_timer the restricted summary above counts the emission

    def setup(self, cx):
        run = cx.run
        inst = mk_inst(cx)
        inst.d['base_prefix'] = PrefixTok()
        inst.d['int_signer'] = Opaque('signer', 'interest signer')
        appx = AppX()
        inst.d['ndn_app'] = appx
        run.ghost['svs.esi'] = dict(app=appx, local0=inst.d['local_sv'].sym.copy())
        return dict(self=inst)

    def post(c, cx, result, self):
        from ndn import appv2 as _appv2
        g = cx.run.ghost['svs.esi']
        calls = g['app'].calls
        L = self.d['local_sv'].sym
        out = {'exactly_one_interest_expressed': len(calls) == 1,
               'local_vector_unchanged': L.same_as(g['local0'])}
        if len(calls) != 1:
            return out
        a, kw = calls[0]
        name = a[0] if a else kw.get('name')
        validator = a[1] if len(a) > 1 else kw.get('validator')
        out['fire_and_forget_with_the_interest_signer'] = kw.get('no_response') is True and kw.get('signer') is self.d['int_signer'] \
            and validator is _appv2.pass_all
        ok = isinstance(name, _Holder) and name.prefix is self.d['base_prefix'] and len(name.tail) == 1 and \
            isinstance(name.tail[0], Opaque) and name.tail[0].typ == 'wire_of'
        out['named_sync_prefix_plus_one_component_holding_the_encoded_vector'] = ok
        if not ok:
            return out
        sv = name.tail[0].d['obj']
        val, ent = _entries_of(sv)
        E = _esi_view(ent)
        from ndn.app_support.svs import tlv as _tlv
        shape = getattr(sv, 'cls', None) is _tlv.StateVecWrapper and getattr(val, 'cls', None) is _tlv.StateVec and \
            E is not None and not E.bad
        out['a_state_vector_wrapper_holding_a_state_vector'] = shape
        if not shape:
            return out
        k, j = z3.Int('k!esip'), z3.Int('j!esip')
        n = zint(E.n)
        out['full_vector_every_local_entry_carried_with_its_sequence_number'] = z3.ForAll([k], z3.Implies(z3.Select(L.dom, k), z3.And(
            z3.Select(E.idx, k) >= 0, z3.Select(E.idx, k) < n, z3.Select(E.ids, z3.Select(E.idx, k)) == k,
            z3.Select(E.seqs, z3.Select(E.idx, k)) == z3.Select(L.val, k))))
        out['nothing_else_and_no_entry_twice'] = z3.ForAll([j], z3.Implies(z3.And(j >= 0, j < n), z3.And(
            z3.Select(L.dom, z3.Select(E.ids, j)), z3.Select(E.idx, z3.Select(E.ids, j)) == j)))
        return out
