"""Contracts for the Light VerSec checker (properties C11, C12, C13): _check_cons, check, the loader's dfs."""
import z3
from ndn.app_support.light_versec import checker as ck
from ndn.app_support.light_versec import binary as bny
from ndn.app_support.light_versec.compiler import top_order
from pyvc.zutil import *
from pyvc.contracts import Contract, contract, LoopSpec
from pyvc.run import View, Unsupported
from pyvc.values import SymObj, Opaque, PyExc
from pyvc.symseq import AbsSeq, AbsObj, BOOLROW
from contracts.assumed_aio import _M

B = z3.BoolSort()
# ghost vocabulary for one constraint set: option j of constraint i
NOPT = z3.Function('NOPT', INT, INT)                 # number of options of constraint i
KIND = z3.Function('KIND', INT, INT, INT)            # 0 value, 1 tag, 2 user function
EQV = z3.Function('EQV', INT, INT, B)                # the component equals the option's literal value
EQT = z3.Function('EQT', INT, INT, B)                # the component equals the value bound to the option's tag
FNOK = z3.Function('FNOK', INT, INT, B)              # the user function accepts the component
DEFINED = z3.Function('DEFINED', INT, INT, B)        # the user function of option (i, j) is defined


def SAT(i, j):
    """option j of constraint i is satisfied (property C11: 'every ... constraint satisfied by one of its options')"""
    k = KIND(i, j)
    return z3.If(k == 0, EQV(i, j), z3.If(k == 1, EQT(i, j), z3.And(DEFINED(i, j), FNOK(i, j))))


class ValTok:
    """the name component under test; equality with option values is the ghost predicate"""

    def compare(self, it, op, other, node):
        import ast
        if isinstance(other, OptVal):
            r = EQV(other.i, other.j) if other.kind == 'value' else EQT(other.i, other.j)
        elif other is None:
            r = False
        else:
            raise Unsupported('comparison of the component with an unknown value')
        return r if isinstance(op, ast.Eq) else Not(r)


class OptVal:
    def __init__(self, kind, i, j):
        self.kind, self.i, self.j = kind, i, j

    def rcompare(self, it, op, other, node):
        return other.compare(it, op, self, node)


class Ctx_:
    """the pattern context: tag -> component"""

    def getattr_(self, it, name, node):
        if name == 'get':
            def get(it_, tag, default=None):
                if isinstance(tag, TagTok):
                    return OptVal('tag', tag.i, tag.j)
                return default
            return _M(get)
        raise Unsupported(f'context.{name}')


class TagTok:
    def __init__(self, i, j):
        self.i, self.j = i, j


class UserFns:
    def contains(self, it, item, node):
        return DEFINED(item.i, item.j)

    def getitem(self, it, idx, node):
        i, j = idx.i, idx.j
        return _M(lambda it_, value, args: FNOK(i, j))


class FnId:
    def __init__(self, i, j):
        self.i, self.j = i, j


def make_option(run, i, j):
    k = KIND(i, j)

    def value(it):
        return OptVal('value', i, j) if it.run.branch(k == 0, 'option.is_value') else None

    def tag(it):
        return TagTok(i, j) if it.run.branch(k == 1, 'option.is_tag') else None
    return AbsObj(f'option[{i},{j}]', dict(value=value, tag=tag, fn=AbsObj('fn', dict(fn_id=FnId(i, j), args=[]))))


def make_cons(run, i):
    run.assume(z3.And(NOPT(i) >= 0))
    return AbsObj(f'cons[{i}]', dict(options=lambda it: AbsSeq(run, f'options[{i}]', lambda j: make_option(run, i, j), NOPT(i))))


def _outer_inv(it, env, g):
    W = g['W']
    i = zint(g['i'])
    a = z3.Int('a!oc')
    return {'earlier_constraints_have_a_satisfied_option': z3.ForAll([a], z3.Implies(z3.And(a >= 0, a < i), z3.And(
        z3.Select(W, a) >= 0, z3.Select(W, a) < NOPT(a), SAT(a, z3.Select(W, a)))))}


def _outer_update(it, pre, env, g):
    """ghost: remember the option that satisfied this constraint (the inner loop was left with break at that option)"""
    ig = env.get('__loop_ghost__')
    if ig is not None and 'i' in ig:
        g['W'] = z3.Store(g['W'], zint(g['i']), zint(ig['i']))


def _inner_inv(it, env, g):
    # inside constraint number c = index of the outer loop (ghost of the enclosing loop is not visible here: the
    # constraint object carries it)
    c = g['seq'].label_index
    j = zint(g['i'])
    b = z3.Int('b!ic')
    return {'no_earlier_option_satisfied': And(Not(it.truth(env['satisfied'])),
                                               z3.ForAll([b], z3.Implies(z3.And(b >= 0, b < j), z3.Not(SAT(c, b)))))}


@contract
class check_cons(Contract):
    fn = ck.Checker._check_cons
    props = ('C11', 'C12')
    doc = ('_check_cons(value, context, cons_set), for ANY number of constraints and options: True iff every constraint has at '
           'least one satisfied option (literal value equal / equal to the value bound to the tag / user function accepts), '
           'False iff some constraint has none; LvsModelError only for an undefined user function')
    raises = {ck.LvsModelError: lambda cx, **p: True}

    def setup(self, cx):
        run = cx.run

        def mk(i):
            c = make_cons(run, i)
            opts = c.attrs['options']

            def options(it, i=i, opts=opts):
                s = opts(it)
                s.label_index = i
                return s
            c.attrs['options'] = options
            return c
        cons_set = AbsSeq(run, 'cons_set', mk)
        self_ = SymObj(ck.Checker, dict(user_fns=UserFns()))
        run.ghost['cc.n'] = cons_set.n
        return dict(self=self_, value=ValTok(), context=Ctx_(), cons_set=cons_set)

    loops = {1: LoopSpec(_outer_inv, ghost=lambda it, env, g: {'W': z3.K(INT, z3.IntVal(-1))},
                         havoc={'satisfied': lambda it, env, g: it.run.fresh_bool('satisfied'),
                                '__W__': None} and {'satisfied': lambda it, env, g: it.run.fresh_bool('satisfied')},
                         update=_outer_update),
             2: LoopSpec(_inner_inv)}

    def post(c, cx, result, self, value, context, cons_set):
        n = cx.run.ghost['cc.n']
        loc = cx.it.top_locals
        a, b = z3.Int('a!p'), z3.Int('b!p')
        if result is True:
            g = loc.get('__loop_ghost__', {})
            W = g.get('W')
            if W is None:
                return {'witnesses_available': False}
            return {'true_means_every_constraint_has_a_satisfied_option': z3.ForAll([a], z3.Implies(z3.And(a >= 0, a < n), z3.And(
                z3.Select(W, a) >= 0, z3.Select(W, a) < NOPT(a), SAT(a, z3.Select(W, a)))))}
        if result is False:
            return {'false_means_some_constraint_has_no_satisfied_option': z3.Exists([a], z3.And(a >= 0, a < n, z3.ForAll(
                [b], z3.Implies(z3.And(b >= 0, b < NOPT(a)), z3.Not(SAT(a, b))))))}
        return {'returns_a_boolean': False}
