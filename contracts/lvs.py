"""Contracts for the Light VerSec checker (properties C11, C12, C13): _check_cons, check, the loader's dfs."""
import z3
from ndn.app_support.light_versec import checker as ck
from ndn.app_support.light_versec import binary as bny
from ndn.app_support.light_versec.compiler import top_order
from pyvc.zutil import *
from pyvc.contracts import Contract, contract, LoopSpec
from pyvc.run import View, Unsupported
from pyvc.values import SymObj, Opaque, PyExc
from pyvc.symseq import AbsSeq, AbsObj, BOOLROW
from contracts.assumed_aio import _M

B = z3.BoolSort()
# ghost vocabulary for one constraint set: option j of constraint i
NOPT = z3.Function('NOPT', INT, INT)                 # number of options of constraint i
KIND = z3.Function('KIND', INT, INT, INT)            # 0 value, 1 tag, 2 user function
EQV = z3.Function('EQV', INT, INT, B)                # the component equals the option's literal value
EQT = z3.Function('EQT', INT, INT, B)                # the component equals the value bound to the option's tag
FNOK = z3.Function('FNOK', INT, INT, B)              # the user function accepts the component
DEFINED = z3.Function('DEFINED', INT, INT, B)        # the user function of option (i, j) is defined


def SAT(i, j):
    """option j of constraint i is satisfied (property C11: 'every ... constraint satisfied by one of its options')"""
    k = KIND(i, j)
    return z3.If(k == 0, EQV(i, j), z3.If(k == 1, EQT(i, j), z3.And(DEFINED(i, j), FNOK(i, j))))


class ValTok:
    """the name component under test; equality with option values is the ghost predicate"""

    def compare(self, it, op, other, node):
        import ast
        if isinstance(other, OptVal):
            r = EQV(other.i, other.j) if other.kind == 'value' else EQT(other.i, other.j)
        elif other is None:
            r = False
        else:
            raise Unsupported('comparison of the component with an unknown value')
        return r if isinstance(op, ast.Eq) else Not(r)


class OptVal:
    def __init__(self, kind, i, j):
        self.kind, self.i, self.j = kind, i, j

    def rcompare(self, it, op, other, node):
        return other.compare(it, op, self, node)


class Ctx_:
    """the pattern context: tag -> component"""

    def getattr_(self, it, name, node):
        if name == 'get':
            def get(it_, tag, default=None):
                if isinstance(tag, TagTok):
                    return OptVal('tag', tag.i, tag.j)
                return default
            return _M(get)
        raise Unsupported(f'context.{name}')


class TagTok:
    def __init__(self, i, j):
        self.i, self.j = i, j


class UserFns:
    def contains(self, it, item, node):
        return DEFINED(item.i, item.j)

    def getitem(self, it, idx, node):
        i, j = idx.i, idx.j
        return _M(lambda it_, value, args: FNOK(i, j))


class FnId:
    def __init__(self, i, j):
        self.i, self.j = i, j


def make_option(run, i, j):
    k = KIND(i, j)

    def value(it):
        return OptVal('value', i, j) if it.run.branch(k == 0, 'option.is_value') else None

    def tag(it):
        return TagTok(i, j) if it.run.branch(k == 1, 'option.is_tag') else None
    return AbsObj(f'option[{i},{j}]', dict(value=value, tag=tag, fn=AbsObj('fn', dict(fn_id=FnId(i, j), args=[]))))


def make_cons(run, i):
    run.assume(z3.And(NOPT(i) >= 0))
    return AbsObj(f'cons[{i}]', dict(options=lambda it: AbsSeq(run, f'options[{i}]', lambda j: make_option(run, i, j), NOPT(i))))


def _outer_inv(it, env, g):
    W = g['W']
    i = zint(g['i'])
    a = z3.Int('a!oc')
    return {'earlier_constraints_have_a_satisfied_option': z3.ForAll([a], z3.Implies(z3.And(a >= 0, a < i), z3.And(
        z3.Select(W, a) >= 0, z3.Select(W, a) < NOPT(a), SAT(a, z3.Select(W, a)))))}


def _outer_update(it, pre, env, g):
    """ghost: remember the option that satisfied this constraint (the inner loop was left with break at that option)"""
    ig = env.get('__loop_ghost__')
    if ig is not None and 'i' in ig:
        g['W'] = z3.Store(g['W'], zint(g['i']), zint(ig['i']))


def _inner_inv(it, env, g):
    # inside constraint number c = index of the outer loop (ghost of the enclosing loop is not visible here: the
    # constraint object carries it)
    c = g['seq'].label_index
    j = zint(g['i'])
    b = z3.Int('b!ic')
    return {'no_earlier_option_satisfied': And(Not(it.truth(env['satisfied'])),
                                               z3.ForAll([b], z3.Implies(z3.And(b >= 0, b < j), z3.Not(SAT(c, b)))))}


@contract
class check_cons(Contract):
    fn = ck.Checker._check_cons
    props = ('C11', 'C12')
    doc = ('_check_cons(value, context, cons_set), for ANY number of constraints and options: True iff every constraint has at '
           'least one satisfied option (literal value equal / equal to the value bound to the tag / user function accepts), '
           'False iff some constraint has none; LvsModelError only for an undefined user function')
    raises = {ck.LvsModelError: lambda cx, **p: True}

    def setup(self, cx):
        run = cx.run

        def mk(i):
            c = make_cons(run, i)
            opts = c.attrs['options']

            def options(it, i=i, opts=opts):
                s = opts(it)
                s.label_index = i
                return s
            c.attrs['options'] = options
            return c
        cons_set = AbsSeq(run, 'cons_set', mk)
        self_ = SymObj(ck.Checker, dict(user_fns=UserFns()))
        run.ghost['cc.n'] = cons_set.n
        return dict(self=self_, value=ValTok(), context=Ctx_(), cons_set=cons_set)

    loops = {1: LoopSpec(_outer_inv, ghost=lambda it, env, g: {'W': z3.K(INT, z3.IntVal(-1))},
                         havoc={'satisfied': lambda it, env, g: it.run.fresh_bool('satisfied'),
                                '__W__': None} and {'satisfied': lambda it, env, g: it.run.fresh_bool('satisfied')},
                         update=_outer_update),
             2: LoopSpec(_inner_inv)}

    def post(c, cx, result, self, value, context, cons_set):
        n = cx.run.ghost['cc.n']
        loc = cx.it.top_locals
        a, b = z3.Int('a!p'), z3.Int('b!p')
        if result is True:
            g = loc.get('__loop_ghost__', {})
            W = g.get('W')
            if W is None:
                return {'witnesses_available': False}
            return {'true_means_every_constraint_has_a_satisfied_option': z3.ForAll([a], z3.Implies(z3.And(a >= 0, a < n), z3.And(
                z3.Select(W, a) >= 0, z3.Select(W, a) < NOPT(a), SAT(a, z3.Select(W, a)))))}
        if result is False:
            return {'false_means_some_constraint_has_no_satisfied_option': z3.Exists([a], z3.And(a >= 0, a < n, z3.ForAll(
                [b], z3.Implies(z3.And(b >= 0, b < NOPT(a)), z3.Not(SAT(a, b))))))}
        return {'returns_a_boolean': False}


# ----------------------------------------------------------------------------- Checker.check (C12)
from ndn.encoding.name import Name, Component            # noqa: E402

NP = z3.Function('NPKT', INT)                            # number of matches of the packet name
PN = z3.Function('PKT_NODE', INT, INT)                   # node reached by packet match a
NK = z3.Function('NKEY', INT, INT)                       # number of matches of the key name under the bindings of match a
KN = z3.Function('KEY_NODE', INT, INT, INT)              # node reached by key match b under packet match a
INSC = z3.Function('IN_SIGN_CONS', INT, INT, B)          # node k is listed in sign_cons of node p


def SIGNS(a, b):
    return INSC(PN(a), KN(a, b))


class LName:
    """a name handed to check(): whether it is empty and whether it ends with an implicit digest are symbolic"""
    opaque_value = True          # stands for an unknown value of a library type: foreign contracts do not know it

    def __init__(self, run, label, stripped_of=None):
        self.run, self.label, self.stripped_of = run, label, stripped_of
        if stripped_of is None:
            self.empty = run.input_bool(f'{label}_empty')
            self.last_type = run.input_int(f'{label}_last_type')

    def truth(self, it):
        if self.stripped_of is not None:
            raise Unsupported('truth of a stripped name')
        return Not(self.empty)

    def getitem(self, it, idx, node):
        if idx != -1 or self.stripped_of is not None:
            raise Unsupported('only name[-1] is modelled')
        return LastComp(self)

    def getslice(self, it, lo, hi, node):
        if lo is None and hi == -1 and self.stripped_of is None:
            return LName(self.run, self.label + '[:-1]', stripped_of=self)
        raise Unsupported('only name[:-1] is modelled')


class LastComp:
    def __init__(self, name):
        self.name = name


@contract
class normalize_lname(Contract):
    fn = Name.normalize
    assumed = True

    def use_contract_at(c, it, args, kwargs):
        return isinstance(args[0], LName)

    def result(c, cx, name):
        return name


@contract
class get_type_lname(Contract):
    fn = Component.get_type
    assumed = True

    def use_contract_at(c, it, args, kwargs):
        return isinstance(args[0], LastComp)

    def result(c, cx, component):
        return component.name.last_type


class CtxTok:
    def __init__(self, a):
        self.a = a


class SignCons:
    def __init__(self, p):
        self.p = p

    def contains(self, it, item, node):
        return INSC(zint(self.p), zint(item))


class Nodes:
    def getitem(self, it, idx, node):
        return AbsObj('node', dict(sign_cons=SignCons(idx)))


@contract
class match_summary(Contract):
    """ASSUMED interface of the matcher inside check(): _match(name, bindings) enumerates (node, bindings) pairs; its own
    correctness (property C11) is decided by the bounded stand-in"""
    fn = ck.Checker._match
    assumed = True

    def use_contract_at(c, it, args, kwargs):
        return isinstance(args[1], LName)

    def result(c, cx, self, name, context):
        run = cx.run
        calls = run.ghost.setdefault('match_calls', [])
        calls.append((name, context))
        if isinstance(context, dict):                       # the packet name, matched under no bindings
            if context != {}:
                raise Unsupported('packet match under bindings')
            run.assume(NP() >= 0)
            s = AbsSeq(run, 'pkt_matches', lambda a: (PN(a), CtxTok(a)), NP())
            s.role = 'pkt'
            return s
        a = context.a
        run.assume(NK(a) >= 0)
        s = AbsSeq(run, 'key_matches', lambda b: (KN(a, b), CtxTok(('key', a, b))), NK(a))
        s.role, s.a = 'key', a
        return s


def _chk_outer_inv(it, env, g):
    i = zint(g['i'])
    a, b = z3.Int('a!co'), z3.Int('b!co')
    return {'no_earlier_packet_match_has_a_signing_key_match': z3.ForAll([a, b], z3.Implies(
        z3.And(a >= 0, a < i, b >= 0, b < NK(a)), z3.Not(SIGNS(a, b))))}


def _chk_inner_inv(it, env, g):
    if getattr(g['seq'], 'role', None) != 'key':
        return {'key_name_matched_under_the_bindings_of_the_packet_match': False}
    a = g['seq'].a
    j = zint(g['i'])
    b = z3.Int('b!ci')
    return {'no_earlier_key_match_signs': z3.ForAll([b], z3.Implies(z3.And(b >= 0, b < j), z3.Not(SIGNS(a, b))))}


@contract
class check(Contract):
    fn = ck.Checker.check
    props = ('C12',)
    doc = ('Checker.check(pkt, key), for ANY number of matches: True iff some match of the packet name and some match of the key '
           'name UNDER THE BINDINGS OF THAT PACKET MATCH reach nodes p, k with k listed in sign_cons(p); False iff there is no such '
           'pair.  Both names are normalised and lose a trailing implicit-digest component (and only that) before matching. The '
           'matcher itself is an assumed interface here')
    raises = {}
    loops = {1: LoopSpec(_chk_outer_inv), 2: LoopSpec(_chk_inner_inv)}

    def setup(self, cx):
        run = cx.run
        self_ = SymObj(ck.Checker, dict(model=AbsObj('model', dict(nodes=Nodes()))))
        return dict(self=self_, pkt_name=LName(run, 'pkt'), key_name=LName(run, 'key'))

    def post(c, cx, result, self, pkt_name, key_name):
        run = cx.run
        a, b = z3.Int('a!p'), z3.Int('b!p')
        out = {}
        calls = run.ghost.get('match_calls', [])

        def stripped_right(used, given):
            digest = And(Not(given.empty), given.last_type == Component.TYPE_IMPLICIT_SHA256)
            return And(Implies(digest, used.stripped_of is given), Implies(Not(digest), used is given))
        if calls:
            out['packet_name_matched_without_trailing_digest'] = stripped_right(calls[0][0], pkt_name)
            out['key_matches_use_the_bindings_of_the_packet_match'] = all(isinstance(cx_, CtxTok) for _, cx_ in calls[1:]) and \
                isinstance(calls[0][1], dict)
            for nm, _ in calls[1:]:
                out['key_name_matched_without_trailing_digest'] = stripped_right(nm, key_name)
        if result is True:
            gs = cx.it.top_locals.get('__active_loop_ghosts__', {})
            if 1 not in gs or 2 not in gs:
                return {'true_only_from_inside_both_loops': False}
            ia, ib = zint(gs[1]['i']), zint(gs[2]['i'])
            out['true_means_a_signing_pair_exists'] = And(ia >= 0, ia < NP(), ib >= 0, ib < NK(ia), SIGNS(ia, ib))
        elif result is False:
            out['false_means_no_signing_pair_exists'] = z3.ForAll([a, b], z3.Implies(
                z3.And(a >= 0, a < NP(), b >= 0, b < NK(a)), z3.Not(SIGNS(a, b))))
        else:
            out['returns_a_boolean'] = False
        return out


# ----------------------------------------------------------------------------- the loader's sanity rules (C13): dfs
NNODES = z3.Int('NNODES')
NV, NPE, NSC = z3.Int('NV'), z3.Int('NPE'), z3.Int('NSC')
VDN = z3.Function('VE_DEST_NONE', INT, B)
VD = z3.Function('VE_DEST', INT, INT)
VHV = z3.Function('VE_HAS_VALUE', INT, B)
PDN = z3.Function('PE_DEST_NONE', INT, B)
PD = z3.Function('PE_DEST', INT, INT)
PTN = z3.Function('PE_TAG_NONE', INT, B)
NCS = z3.Function('PE_NCONS', INT, INT)
NOP = z3.Function('CONS_NOPT', INT, INT, INT)
HV = z3.Function('OPT_HAS_VALUE', INT, INT, INT, B)
HT = z3.Function('OPT_HAS_TAG', INT, INT, INT, B)
HF = z3.Function('OPT_HAS_FN', INT, INT, INT, B)
FID = z3.Function('OPT_FN_HAS_ID', INT, INT, INT, B)
SC = z3.Function('SIGN_CONS', INT, INT)
SUBOK = z3.Function('SUBTREE_OK', INT, INT, B)            # dfs(dest, parent) returned normally


def _b2i(t):
    return z3.If(t, 1, 0)


def OPT_OK(e, s, o):
    return z3.And(_b2i(HV(e, s, o)) + _b2i(HT(e, s, o)) + _b2i(HF(e, s, o)) == 1, z3.Implies(HF(e, s, o), FID(e, s, o)))


class Truthy:
    def __init__(self, t):
        self.t = t

    def truth(self, it):
        return self.t


def _opt_attr(it, none_when, value):
    """None on the paths where `none_when` holds, else `value`"""
    return None if it.run.branch(none_when, 'field.absent') else value


def _mk_vedge(e):
    return AbsObj(f've[{e}]', dict(dest=lambda it: _opt_attr(it, VDN(e), VD(e)), value=Truthy(VHV(e))))


def _mk_option(e, s, o):
    fn = AbsObj('fn', dict(fn_id=Truthy(FID(e, s, o))))
    return AbsObj(f'opt[{e},{s},{o}]', dict(value=Truthy(HV(e, s, o)),
                                            tag=lambda it: _opt_attr(it, z3.Not(HT(e, s, o)), z3.IntVal(0)),
                                            fn=lambda it: _opt_attr(it, z3.Not(HF(e, s, o)), fn)))


def _mk_pedge(run, e):
    def cons_sets(it):
        run.assume(NCS(e) >= 0)

        def mk_cons(s):
            def options(it_):
                run.assume(NOP(e, s) >= 0)
                sq = AbsSeq(run, f'options[{e},{s}]', lambda o: _mk_option(e, s, o), NOP(e, s))
                sq.e, sq.s = e, s
                return sq
            return AbsObj(f'cons[{e},{s}]', dict(options=options))
        sq = AbsSeq(run, f'cons_sets[{e}]', mk_cons, NCS(e))
        sq.e = e
        return sq
    return AbsObj(f'pe[{e}]', dict(dest=lambda it: _opt_attr(it, PDN(e), PD(e)), tag=lambda it: _opt_attr(it, PTN(e), z3.IntVal(0)),
                                   cons_sets=cons_sets))


class AdjList:
    def __init__(self):
        self.appended = []

    def getitem(self, it, idx, node):
        owner = self

        class _L:
            def getattr_(self_, it_, name, node_):
                if name == 'append':
                    return _M(lambda it__, v: owner.appended.append((idx, v)))
                raise Unsupported(f'list.{name}')
        return _L()


class GhostSet:
    def __init__(self):
        self.added = []

    def getattr_(self, it, name, node):
        if name == 'add':
            return _M(lambda it_, v: self.added.append(v))
        raise Unsupported(f'set.{name}')


def _q(*names):
    return [z3.Int(n) for n in names]


def _ve_rule(e, cur):
    return z3.And(z3.Not(VDN(e)), VHV(e), SUBOK(VD(e), cur))


def _pe_rule(e, cur):
    s, o = _q('s!r', 'o!r')
    return z3.And(z3.Not(PDN(e)), z3.Not(PTN(e)), SUBOK(PD(e), cur),
                  z3.ForAll([s, o], z3.Implies(z3.And(s >= 0, s < NCS(e), o >= 0, o < NOP(e, s)), OPT_OK(e, s, o))))


def _dfs_cur(it):
    return zint(it.top_locals['cur'])


def _inv_ve(it, env, g):
    e, = _q('e!v')
    return {'earlier_value_edges_well_formed_and_subtrees_checked': z3.ForAll([e], z3.Implies(z3.And(e >= 0, e < zint(g['i'])), _ve_rule(e, _dfs_cur(it))))}


def _inv_pe(it, env, g):
    e, = _q('e!p')
    return {'earlier_pattern_edges_well_formed_and_subtrees_checked': z3.ForAll([e], z3.Implies(z3.And(e >= 0, e < zint(g['i'])), _pe_rule(e, _dfs_cur(it))))}


def _inv_cons(it, env, g):
    e = g['seq'].e
    s, o = _q('s!c', 'o!c')
    return {'earlier_constraint_sets_well_formed': z3.ForAll([s, o], z3.Implies(
        z3.And(s >= 0, s < zint(g['i']), o >= 0, o < NOP(e, s)), OPT_OK(e, s, o)))}


def _inv_opt(it, env, g):
    e, s = g['seq'].e, g['seq'].s
    o, = _q('o!o')
    return {'earlier_options_well_formed': z3.ForAll([o], z3.Implies(z3.And(o >= 0, o < zint(g['i'])), OPT_OK(e, s, o)))}


def _inv_sc(it, env, g):
    k, = _q('k!s')
    return {'earlier_signers_exist': z3.ForAll([k], z3.Implies(z3.And(k >= 0, k < zint(g['i'])), z3.And(SC(k) < NNODES)))}


def _step_sc(it, pre, env, g):
    """every iteration of the signer loop records this signer for the cycle check (adj_lst) and the roots of trust (in_deg_nodes)"""
    d = it.run.ghost['dfs']
    k = simp(zint(g['i']) - 1)
    adj, indeg = d['adj'].appended, d['indeg'].added
    cur = _dfs_cur(it)
    return {'signer_recorded_as_edge_of_the_signing_graph': len(adj) == 1 and And(Eq(zint(adj[0][0]), cur), Eq(zint(adj[0][1]), SC(k))),
            'signer_recorded_as_signing_node': len(indeg) == 1 and Eq(zint(indeg[0]), SC(k))}


@contract
class loader_dfs(Contract):
    fn = ck.Checker._sanity_check
    nested = 'dfs'
    props = ('C13',)
    doc = ('the loader\'s dfs(cur, par), for ANY number of edges, constraint sets, options and signers: it returns normally only if node '
           'cur exists, carries id cur and parent par, every value edge has a destination and a value, every pattern edge a '
           'destination and a tag, every constraint option exactly one of value / tag / function (a function with an id), every '
           'signer id names an existing node, and the same holds for the subtree under every edge (by the recursive calls); every '
           'other model raises LvsModelError and nothing else; every signer is recorded for the cycle check and the roots of trust')
    raises = {ck.LvsModelError: lambda cx, **p: True}

    def setup(self, cx):
        run = cx.run
        cur = run.input_int('cur')
        run.assume(z3.And(cur >= 0, NNODES >= 0, NV >= 0, NPE >= 0, NSC >= 0))
        pk = run.choose([('root', True), ('child', True)], 'par')
        par = None if pk == 'root' else run.input_int('par')
        ik = run.choose([('id', True), ('id=None', True)], 'node.id')
        nid = run.input_int('node_id') if ik == 'id' else None
        qk = run.choose([('parent', True), ('parent=None', True)], 'node.parent')
        npar = run.input_int('node_parent') if qk == 'parent' else None
        node = AbsObj('node', dict(id=nid, parent=npar,
                                   v_edges=AbsSeq(run, 'v_edges', _mk_vedge, NV),
                                   p_edges=AbsSeq(run, 'p_edges', lambda e: _mk_pedge(run, e), NPE),
                                   sign_cons=AbsSeq(run, 'sign_cons', lambda k: SC(k), NSC)))
        nodes = AbsSeq(run, 'nodes', lambda j: node, NNODES)
        self_ = SymObj(ck.Checker, dict(model=AbsObj('model', dict(nodes=nodes)), _model_fns=GhostSet()))
        adj, indeg = AdjList(), GhostSet()
        run.ghost['dfs'] = dict(self=self_, adj=adj, indeg=indeg, nid=nid, npar=npar)
        return dict(cur=cur, par=par)

    def closure(self, cx):
        g = cx.run.ghost['dfs']
        return dict(self=g['self'], adj_lst=g['adj'], in_deg_nodes=g['indeg'])

    loops = {1: LoopSpec(_inv_ve), 2: LoopSpec(_inv_pe), 3: LoopSpec(_inv_cons), 4: LoopSpec(_inv_opt), 5: LoopSpec(_inv_sc, step=_step_sc)}

    def post(c, cx, result, cur, par):
        g = cx.run.ghost['dfs']
        e, k = _q('e!q', 'k!q')
        nid, npar = g['nid'], g['npar']
        same_parent = (npar is None and par is None) or (npar is not None and par is not None and Eq(zint(npar), zint(par)))
        return {'node_exists': zint(cur) < NNODES,
                'node_carries_its_own_id': nid is not None and Eq(zint(nid), zint(cur)),
                'parent_link_is_the_edge_it_was_reached_by': same_parent,
                'value_edges_well_formed_and_subtrees_checked': z3.ForAll([e], z3.Implies(z3.And(e >= 0, e < NV), _ve_rule(e, zint(cur)))),
                'pattern_edges_and_their_constraints_well_formed': z3.ForAll([e], z3.Implies(z3.And(e >= 0, e < NPE), _pe_rule(e, zint(cur)))),
                'every_signer_exists': z3.ForAll([k], z3.Implies(z3.And(k >= 0, k < NSC), SC(k) < NNODES))}

    def post_assumed(c, cx, result, cur, par):
        return {'subtree_ok': SUBOK(zint(cur), zint(par) if par is not None else z3.IntVal(-1))}

    def result(c, cx, cur, par):
        return None


# ----------------------------------------------------------------------------- Checker._sanity_check (C13)
class NodesSeq(AbsSeq):
    """model.nodes in _sanity_check: `{n.id: [] for n in nodes}` builds the (abstract) adjacency list"""

    def comp_(self, it, node, fr):
        import ast as _ast
        if not isinstance(node, _ast.DictComp):
            raise Unsupported('comprehension over the node list other than the adjacency list')
        a = AdjList()
        a.of_nodes = self
        it.run.ghost['sc.adj'] = a
        return a


def _adj_getattr(self, it, name, node):
    if name == 'keys':
        return _M(lambda it_: ('keys-of', self))
    raise Unsupported(f'adjacency list .{name}')


AdjList.getattr_ = _adj_getattr


class InDeg(GhostSet):
    def comp_(self, it, node, fr):
        it.run.ghost['sc.trust_roots_built'] = True
        return Opaque('trust_roots', 'signing nodes without signers')


@contract
class top_order_assumed(Contract):
    """ASSUMED (compiler.top_order is a separate function): raises on a cyclic signing relation"""
    fn = top_order
    assumed = True
    raises = {Exception: lambda cx, **p: True}

    def use_contract_at(c, it, args, kwargs):
        return isinstance(args[1], AdjList)

    def result(c, cx, nodes, graph):
        cx.run.ghost['sc.top_order'] = (nodes, graph)
        return []


def _set_model():
    from pyvc import models
    old = models.BUILTIN_MODELS.get(set)

    def m_set(it, args, kwargs, node):
        if args and isinstance(args[0], tuple) and len(args[0]) == 2 and args[0][0] == 'keys-of':
            return ('node-ids', args[0][1])
        if not args:
            g = it.run.ghost.get('sc.sets')
            if g is not None:
                s = InDeg()
                g.append(s)
                return s
            return set()
        if old is not None:
            return old(it, args, kwargs, node)
        return set(*args)
    models.BUILTIN_MODELS[set] = m_set


_set_model()


@contract
class sanity_check(Contract):
    fn = ck.Checker._sanity_check
    props = ('C13',)
    doc = ('Checker._sanity_check returns normally only for a model with a supported version and a start node, whose whole tree passed '
           'dfs(start, None) (see the dfs contract) and whose signing relation passed the cycle check over ALL node ids; the roots of '
           'trust are computed from the recorded signing nodes.  A missing / unsupported version or a missing start node is an '
           'LvsModelError')
    raises = {ck.LvsModelError: lambda cx, **p: True, Exception: lambda cx, **p: True}

    def setup(self, cx):
        run = cx.run
        vk = run.choose([('version', True), ('version=None', True)], 'version')
        version = run.input_int('version') if vk == 'version' else None
        sk = run.choose([('start', True), ('start=None', True)], 'start_id')
        start = run.input_int('start_id') if sk == 'start' else None
        if start is not None:
            run.assume(start >= 0)
        nodes = NodesSeq(run, 'nodes', lambda j: AbsObj('node', {}), NNODES)
        run.assume(NNODES >= 0)
        run.ghost['sc.sets'] = []
        run.ghost['sc'] = dict(version=version, start=start, nodes=nodes)
        return dict(self=SymObj(ck.Checker, dict(model=AbsObj('model', dict(version=version, start_id=start, nodes=nodes)))))

    def post(c, cx, result, self):
        g = cx.run.ghost
        d = g['sc']
        v, st = d['version'], d['start']
        out = {'version_supported': v is not None and And(zint(v) >= bny.MIN_SUPPORTED_VERSION, zint(v) <= bny.VERSION),
               'start_node_present': st is not None}
        if st is not None:
            out['whole_tree_checked_from_the_start_node_as_root'] = SUBOK(zint(st), z3.IntVal(-1))
        to = g.get('sc.top_order')
        adj = g.get('sc.adj')
        out['signing_relation_checked_for_cycles_over_all_nodes'] = to is not None and adj is not None and to[1] is adj and \
            to[0] == ('node-ids', adj) and adj.of_nodes is d['nodes']
        out['roots_of_trust_from_recorded_signing_nodes'] = g.get('sc.trust_roots_built') is True and \
            isinstance(self.d.get('_trust_roots'), Opaque) and self.d['_trust_roots'].typ == 'trust_roots'
        return out

    def xpost(c, cx, exc, self):
        d = cx.run.ghost['sc']
        v, st = d['version'], d['start']
        if exc.cls is ck.LvsModelError:
            return {}
        # any other exception can only come out of the cycle check
        return {'other_errors_only_from_the_cycle_check': v is not None and st is not None}


# ----------------------------------------------------------------------------- validate_user_fns / root_of_trust (C13, C14)
class FnSet:
    """_model_fns: the user functions the model refers to; issubset() against the defined ones is a ghost boolean"""

    def __init__(self, run):
        self.all_defined = run.input_bool('every_model_function_is_defined')
        self.asked = []

    def getattr_(self, it, name, node):
        if name == 'issubset':
            def f(it_, other):
                self.asked.append(other)
                return self.all_defined
            return _M(f)
        raise Unsupported(f'set.{name}')


class FnDict:
    def getattr_(self, it, name, node):
        if name == 'keys':
            return _M(lambda it_: ('keys-of', self))
        raise Unsupported(f'dict.{name}')


@contract
class validate_user_fns(Contract):
    fn = ck.Checker.validate_user_fns
    props = ('C13', 'C14')
    doc = ('validate_user_fns: True iff every user function the model refers to (collected by the loader) is among the keys of the '
           'user functions given to this checker')
    raises = {}

    def setup(self, cx):
        fs, fd = FnSet(cx.run), FnDict()
        cx.run.ghost['vuf'] = (fs, fd)
        return dict(self=SymObj(ck.Checker, dict(_model_fns=fs, user_fns=fd)))

    def post(c, cx, result, self):
        fs, fd = cx.run.ghost['vuf']
        return {'asks_whether_model_functions_are_a_subset_of_the_given_ones': fs.asked == [('keys-of', fd)],
                'answer_is_that_subset_test': result is fs.all_defined}


# ----------------------------------------------------------------------------- Checker.match (public enumeration, C11)
HASRULE = z3.Function('NODE_HAS_RULE_NAME', INT, B)


class RuleNames:
    def __init__(self, node_id):
        self.node_id = node_id

    def truth(self, it):
        return HASRULE(zint(self.node_id))


class IdText:
    """str(node_id): only '#_' + str(id) is used"""

    def __init__(self, node_id):
        self.node_id = node_id

    def rbinop_(self, it, op, left, node):
        import ast
        if isinstance(op, ast.Add) and left == '#_':
            return AnonName(self.node_id)
        raise Unsupported('text arithmetic on a node id')


class AnonName:
    def __init__(self, node_id):
        self.node_id = node_id


class NodesM:
    def getitem(self, it, idx, node):
        return AbsObj('node', dict(rule_name=RuleNames(idx)))


@contract
class context_to_name_summary(Contract):
    """ASSUMED here: maps tag numbers to pattern names (a dict comprehension over the symbol table)"""
    fn = ck.Checker._context_to_name
    assumed = True

    def use_contract_at(c, it, args, kwargs):
        return isinstance(args[1], CtxTok)

    def result(c, cx, self, context):
        return ('named-bindings-of', context.a)


def _install_match():
    from pyvc import models
    old = models.BUILTIN_MODELS[str]

    def m_str(it, args, kwargs, node):
        if len(args) == 1 and is_sym(args[0]) and 'mm' in it.run.ghost:
            return IdText(args[0])
        return old(it, args, kwargs, node)
    models.BUILTIN_MODELS[str] = m_str


_install_match()


def _mm_inv(it, env, g):
    d = it.run.ghost['mm']
    return {'one_result_per_match_so_far': True}


def _mm_havoc(it, env, g):
    it.run.ghost['mm']['yields'].clear()
    return env['self']


def _mm_step(it, pre, env, g):
    d = it.run.ghost['mm']
    ys = d['yields']
    a = simp(zint(g['i']) - 1)
    out = {'exactly_one_result_for_this_match': len(ys) == 1}
    if len(ys) == 1:
        rn, ctx = ys[0]
        named = isinstance(rn, RuleNames) and Eq(zint(rn.node_id), PN(a))
        anon = isinstance(rn, list) and len(rn) == 1 and isinstance(rn[0], AnonName) and Eq(zint(rn[0].node_id), PN(a))
        out['rule_names_of_the_matched_node_or_its_anonymous_name'] = And(
            Implies(HASRULE(PN(a)), named is not False and named), Implies(Not(HASRULE(PN(a))), anon is not False and anon)) \
            if (named is not False or anon is not False) else False
        out['bindings_of_this_match_by_pattern_name'] = isinstance(ctx, tuple) and ctx[0] == 'named-bindings-of' and Eq(zint(ctx[1]), a)
    return out


@contract
class match_public(Contract):
    fn = ck.Checker.match
    props = ('C11',)
    doc = ('Checker.match(name), ANY number of matches of the underlying search: the name is normalised and loses a trailing '
           'implicit-digest component (only that); for every match, in order, exactly one result is produced: the rule names of the '
           'matched node - or the anonymous name #_<node id> when it has none - and that match\'s bindings by pattern name')
    raises = {}
    loops = {1: LoopSpec(_mm_inv, havoc={'self': _mm_havoc}, step=_mm_step)}

    def setup(self, cx):
        run = cx.run
        run.ghost['mm'] = dict(yields=[])
        run.ghost['on_yield'] = lambda it_, v, node: run.ghost['mm']['yields'].append(v)
        self_ = SymObj(ck.Checker, dict(model=AbsObj('model', dict(nodes=NodesM()))))
        return dict(self=self_, name=LName(run, 'name'))

    def post(c, cx, result, self, name):
        calls = cx.run.ghost.get('match_calls', [])
        digest = And(Not(name.empty), name.last_type == Component.TYPE_IMPLICIT_SHA256)
        ok = len(calls) == 1 and isinstance(calls[0][1], dict) and calls[0][1] == {}
        out = {'one_search_from_empty_bindings': ok,
               'enumeration_ends_only_after_the_last_match': cx.it.top_locals.get('__loop_ghost__') is not None}
        if ok:
            used = calls[0][0]
            out['name_matched_without_trailing_digest'] = And(Implies(digest, used.stripped_of is name), Implies(Not(digest), used is name))
        return out
