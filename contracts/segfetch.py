"""Contract for ndn/app_support/segment_fetcher.py (property C19).

Environment (ASSUMED, from property C03): app.express_interest(name, can_be_prefix=...) returns an awaitable that yields
a Data (name, meta, content) MATCHING the Interest - the same name, or (CanBePrefix) a name it is a prefix of - or raises
InterestTimeout / InterestNack / ValidationFailure.  Which of these happens, and what the Data carries, is arbitrary.
"""
import z3
from ndn.app_support import segment_fetcher as sf
from ndn import types
from ndn.encoding.name import Component
from pyvc.zutil import *
from pyvc.contracts import Contract, contract, LoopSpec
from pyvc.run import View, Unsupported
from pyvc.values import SymObj, Opaque, PyExc, CoroVal
from pyvc.symseq import BufSeq
from spec.tlv import *
from contracts.assumed_aio import _M

TYPE_SEGMENT = 0x32


def seg_value(h, comp):
    """the number carried by a segment component 32 0w <w bytes>"""
    w = comp.at(h, 1)
    return z3.If(w == 1, be(h, comp, 2, 1), z3.If(w == 2, be(h, comp, 2, 2), z3.If(w == 4, be(h, comp, 2, 4), be(h, comp, 2, 8))))


def is_segment(h, comp):
    w = comp.at(h, 1)
    return z3.And(comp.at(h, 0) == TYPE_SEGMENT, z3.Or(w == 1, w == 2, w == 4, w == 8), zint(comp.length) == 2 + w)


def cx_beint(it, comp):
    """value of a (possibly non-canonical) number component, as Component.to_number reads it"""
    from pyvc.contracts import REGISTRY, Ctx
    c = REGISTRY.lookup(Component.to_number)
    h = it.run.heap
    tn = need_at(h, comp, 0)
    sn = need_at(h, comp, tn)
    v = View(comp.cell, simp(zint(comp.start) + tn + sn), simp(zint(comp.length) - tn - sn), comp.kind)
    return beint_term(h, v)


class AppModel:
    def __init__(self, run):
        self.run = run
        self.ncalls = 0               # ghost: number of Interests expressed so far (symbolic under loops)
        self.last = None              # ghost: the last request
        self.last_response = None
        self.fatal = False            # ghost: a Nack / ValidationFailure was delivered to the fetcher

    def getattr_(self, it, name, node):
        if name != 'express_interest':
            raise Unsupported(f'app.{name}')

        def express(it_, nm, **kw):
            run = it_.run
            run.oblige('ndn.app_support.segment_fetcher.segment_fetcher#express.nothing_requested_after_nack_or_validation_failure',
                       not self.fatal)
            self.ncalls = simp(zint(self.ncalls) + 1)
            req_last = nm.elem(it_, simp(zint(nm.n) - 1)) if run.branch(zint(nm.n) >= 1, 'request name non-empty') else None
            self.last = dict(name=nm.copy(), cbp=kw.get('can_be_prefix', False), last=req_last, heap=run.heap, kw=kw)

            def thunk():
                tag = run.choose([('data', True), (types.InterestTimeout, True), (types.InterestNack, True),
                                  (types.ValidationFailure, True)], 'response')
                if tag in (types.InterestNack, types.ValidationFailure):
                    self.fatal = True
                if tag != 'data':
                    ex = PyExc(tag, ('raised by the awaitable of express_interest',), getattr(node, 'lineno', None), it_.where())
                    if tag is types.InterestNack:
                        ex.attrs['reason'] = run.fresh_int('nack_reason')        # InterestNack carries its reason code
                        run.assume(z3.And(ex.attrs['reason'] >= 0, ex.attrs['reason'] < 2 ** 64))
                    raise ex
                if self.last['cbp']:
                    # discovery: any name under the prefix; its last component is arbitrary
                    rname = BufSeq.fresh(run, 'resp_name', 'memoryview')
                    run.assume(zint(rname.n) >= 1)
                    # names of received Data come from Name.decode: every component is a complete TLV element
                    lc = rname.elem(it_, simp(zint(rname.n) - 1))
                    hh = run.heap
                    tn_ = need_at(hh, lc, 0)
                    run.assume(z3.And(zint(lc.length) >= 2, tn_ < zint(lc.length), tn_ + need_at(hh, lc, tn_) <= zint(lc.length),
                                      zint(lc.length) == tn_ + need_at(hh, lc, tn_) + tlval_at(hh, lc, tn_)))
                else:
                    rname = nm.copy()          # exact match
                content = Opaque('content', f'content#{run.fresh_name("c")}')
                fk = run.choose([('final_block_id=None', True), ('final_block_id', True)], 'final')
                fb = None if fk == 'final_block_id=None' else run.input_buf(run.fresh_name('final_block_id'), 'bytes')
                meta = SymObj(object, dict(final_block_id=fb))
                self.last_response = dict(name=rname, meta=meta, content=content, final=fb)
                return (rname, meta, content)
            return CoroVal(thunk, 'express_interest')
        return _M(lambda it_, nm, **kw: express(it_, nm, **kw))


def _retry_inv(it, env, g):
    app = it.run.ghost['sf.app']
    return {'attempts_counted': zint(app.ncalls) == zint(g['n0']) + zint(env['trial_times']),
            'nack_or_validation_failure_ends_the_fetch': not app.fatal,
            'below_limit': And(zint(env['trial_times']) >= 0, zint(env['trial_times']) < zint(it.run.ghost['sf.retry_times']))}


def _retry_ghost(it, env, g):
    app = it.run.ghost['sf.app']
    it.run.ghost['sf.retry_n0'] = app.ncalls
    return {'n0': app.ncalls}


def _retry_havoc_app(it, env, g):
    app = it.run.ghost['sf.app']
    app.ncalls = it.run.fresh_int('ncalls')
    return env.get('future')


def _main_inv(it, env, g):
    run = it.run
    return {'yielded_so_far_equals_next_segment': zint(run.ghost['sf.nyield']) == zint(env['seg_no']),
            'seg_no_nonneg': zint(env['seg_no']) >= 0,
            'name_nonempty': zint(env['name'].n) >= 1}


def _main_havoc(field):
    def f(it, env, g):
        run = it.run
        if field == 'name':
            nm = BufSeq.fresh(run, 'name', 'memoryview')
            return nm
        if field == 'nyield':
            run.ghost['sf.nyield'] = run.fresh_int('nyield')
            return env.get('content')
        if field == 'meta':
            # what an earlier iteration left behind: the MetaInfo of some earlier answer (with or without a FinalBlockId)
            fk = run.choose([('final_block_id=None', True), ('final_block_id', True)], 'earlier final')
            fb = None if fk == 'final_block_id=None' else run.input_buf(run.fresh_name('earlier_final_block_id'), 'bytes')
            return SymObj(object, dict(final_block_id=fb))
        return None
    return f


@contract
class segment_fetcher(Contract):
    fn = sf.segment_fetcher
    props = ('C19',)
    doc = ('segment_fetcher: every Interest is re-expressed after a timeout until retry_times attempts were made and the fetch fails '
           'with InterestTimeout exactly then; Nack / ValidationFailure propagate at once; an unsegmented object yields its single '
           'content; otherwise the k-th content yielded is the answer to the request for segment k (k = 0, 1, ...), each once, and '
           'the fetch stops exactly when the answer names itself as final block; a discovery answer that is not segment 0 restarts at 0')

    loops = {('segment_fetcher.<locals>.retry', 1): LoopSpec(_retry_inv, ghost=_retry_ghost,
                                                              havoc={'future': _retry_havoc_app}),
             ('segment_fetcher', 2): LoopSpec(_main_inv, havoc={'name': _main_havoc('name'), 'meta': _main_havoc('meta'),
                                                                  'content': _main_havoc('nyield')})}

    def setup(self, cx):
        run = cx.run
        app = AppModel(run)
        run.ghost['sf.app'] = app
        rt = run.input_int('retry_times')
        run.ghost['sf.retry_times'] = rt
        run.ghost['sf.nyield'] = 0
        run.ghost['sf.yields'] = []

        def on_yield(it, v, node):
            g = it.run.ghost
            resp = app.last_response
            req = app.last
            k = g['sf.nyield']
            ob = []
            # the content yielded is the content of the latest answer
            ob.append(('yield_is_latest_answer', resp is not None and v is resp['content']))
            if not req['cbp']:
                # answer to an exact request: it must have been the request for segment number k
                ob.append(('kth_yield_answers_request_for_segment_k',
                           And(is_segment(req['heap'], req['last']), seg_value(req['heap'], req['last']) == zint(k))))
            else:
                # discovery answer that is yielded directly: unsegmented, or it must be segment number k (= 0)
                rl = it.getitem(resp['name'], -1, node)
                hh = it.run.heap
                ob.append(('discovery_answer_yielded_only_if_unsegmented_or_segment_k',
                           Or(Not(And(zint(rl.length) >= 1, tlval_at(hh, rl, 0) == TYPE_SEGMENT)), cx_beint(it, rl) == zint(k))))
            g['sf.yields'].append((v, k))
            for lab, t in ob:
                it.run.oblige(f'ndn.app_support.segment_fetcher.segment_fetcher#yield.{lab}@L{node.lineno}', t)
            g['sf.nyield'] = simp(zint(k) + 1)
        run.ghost['on_yield'] = on_yield
        name = BufSeq.fresh(run, 'prefix', 'bytearray')
        return dict(app=app, name=name, timeout=4000, retry_times=rt, validator=None, must_be_fresh=True)

    def pre(c, cx, app, name, timeout, retry_times, validator, must_be_fresh):
        return zint(retry_times) >= 1

    import struct as _struct
    raises = {types.InterestTimeout: lambda cx, **p: True, types.InterestNack: lambda cx, **p: True,
              types.ValidationFailure: lambda cx, **p: True,
              _struct.error: lambda cx, **p: True}       # a segment number beyond 2**64 - 1 cannot be encoded

    def xpost(c, cx, e, app, name, timeout, retry_times, validator, must_be_fresh):
        g = cx.run.ghost
        if e.cls is types.InterestTimeout:
            # the fetch fails with a timeout exactly when the attempts for this Interest are exhausted
            return {'timeout_only_after_retry_times_attempts': zint(app.ncalls) - zint(g['sf.retry_n0']) == zint(retry_times)}
        # Nack / validation failure: propagated by the very attempt that received it (no further attempt afterwards)
        return {'propagates_immediately': True}

    def post(c, cx, result, app, name, timeout, retry_times, validator, must_be_fresh):
        g = cx.run.ghost
        out = {}
        resp = app.last_response
        ys = g['sf.yields']
        out['at_least_one_content'] = len(ys) >= 1
        # the generator stopped: either the object is unsegmented, or the last answer named itself as final block
        h = cx.heap
        last = cx.it.getitem(resp['name'], -1, None)
        unsegmented = Not(And(zint(last.length) >= 1, tlval_at(h, last, 0) == TYPE_SEGMENT))
        if resp['final'] is None:
            out['stops_only_when_final_or_unsegmented'] = unsegmented
        else:
            out['stops_only_when_final_or_unsegmented'] = Or(unsegmented, cx.it.bytes_eq(resp['final'], last))
        return out
