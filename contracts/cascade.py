"""Contracts for ndn/security/validator/cascade_validator.py (property C14): flow of CascadeChecker.validate and
_verify_sig.  Cryptographic verification (verify_rsa / verify_ecdsa / verify_hmac, key import) is ASSUMED: a ghost
predicate VERIFIES(kind, key bits, packet)."""
import z3
from Cryptodome.PublicKey import ECC, RSA
from ndn.security.validator import cascade_validator as cv
from ndn.security.validator import known_key_validator as kk
from ndn.encoding import SignatureType
from ndn import types
from pyvc.zutil import *
from pyvc.contracts import Contract, contract
from pyvc.run import Unsupported
from pyvc.values import SymObj, Opaque, PyExc, CoroVal
from contracts.assumed_aio import _M

HANDLED = (types.ValidationFailure, types.InterestTimeout, types.InterestNack)


class KeyBits:
    """public key bits (opaque byte string); `empty` says whether it is falsy"""

    def __init__(self, label, empty=False):
        self.label, self.empty = label, empty

    def truth(self, it):
        return Not(self.empty) if not isinstance(self.empty, bool) else (not self.empty)


def _verify_model(kind):
    def f(it, args, kwargs, node):
        key, sig = args[0], args[1]
        b = it.run.fresh_bool(f'verifies_{kind}')
        it.run.ghost.setdefault('verify_calls', []).append((kind, key, sig, b))
        return b
    return f


def _import_model(kind):
    def f(it, args, kwargs, node):
        src = args[0]
        if it.run.branch(it.run.fresh_bool(f'{kind}_key_malformed'), f'{kind}.import_key fails'):
            raise PyExc(ValueError, (f'{kind} key format is not supported',), getattr(node, 'lineno', None), it.where())
        return ImportedKey(kind, src)
    return f


class ImportedKey(tuple):
    """result of RSA.import_key / ECC.import_key: ('imported', kind, source bits); an ECC import is an EccKey"""

    def __new__(cls, kind, src):
        return super().__new__(cls, ('imported', kind, src))

    def isinstance_(self, t):
        if t is ECC.EccKey:
            return self[1] == 'ecc'
        if t is RSA.RsaKey:
            return self[1] == 'rsa'
        return t in (tuple, object)


def _bytes_model(it, v):
    return v


def _install():
    from pyvc import models
    models.REAL_FUNCTION_MODELS[kk.verify_rsa] = _verify_model('rsa')
    models.REAL_FUNCTION_MODELS[kk.verify_ecdsa] = _verify_model('ecdsa')
    models.REAL_FUNCTION_MODELS[kk.verify_hmac] = _verify_model('hmac')
    models.REAL_FUNCTION_MODELS[RSA.import_key] = _import_model('rsa')
    models.REAL_FUNCTION_MODELS[ECC.import_key] = _import_model('ecc')
    old = models.BUILTIN_MODELS[bytes]

    def m_bytes(it, args, kwargs, node):
        if args and isinstance(args[0], KeyBits):
            return args[0]
        return old(it, args, kwargs, node)
    models.BUILTIN_MODELS[bytes] = m_bytes


_install()


def mk_sig(cx, with_locator=True):
    run = cx.run
    tk = run.choose([('hmac', True), ('rsa', True), ('ecdsa', True), ('other type', True)], 'signature type')
    st = {'hmac': SignatureType.HMAC_WITH_SHA256, 'rsa': SignatureType.SHA256_WITH_RSA, 'ecdsa': SignatureType.SHA256_WITH_ECDSA,
          'other type': SignatureType.DIGEST_SHA256}[tk]
    run.input_const('signature_type', tk)
    si = SymObj(object, dict(signature_type=st, key_locator=None))
    return SymObj(object, dict(signature_info=si)), tk


@contract
class verify_sig(Contract):
    fn = cv.CascadeChecker._verify_sig
    props = ('C14',)
    doc = ('_verify_sig is truthy only if the packet announces RSA or ECDSA and the matching verifier accepted exactly these '
           'key bits and this packet; HMAC and every other type are refused; a key that cannot be imported is a refusal, '
           'not an exception')
    raises = {}

    def setup(self, cx):
        sig, tk = mk_sig(cx)
        cx.run.ghost['vs.kind'] = tk
        return dict(pub_key_bits=KeyBits('key'), sig_ptrs=sig)

    def post(c, cx, result, pub_key_bits, sig_ptrs):
        calls = cx.run.ghost.get('verify_calls', [])
        tk = cx.run.ghost.get('vs.kind')
        if tk is None:          # call-site use of the summary (result() below): nothing to re-check
            return {}
        truthy = cx.it.truth(result)
        if tk in ('rsa', 'ecdsa'):
            ok = [x for x in calls if x[0] == tk]
            if len(ok) == 1:
                kind, key, sig, b = ok[0]
                return {'verdict_is_the_verifiers': And(Iff(truthy, b), key[2] is pub_key_bits, sig is sig_ptrs)}
            return {'refused_without_verifier': truthy is False or truthy is None}
        return {'not_a_public_key_signature_is_refused': Not(truthy) if is_sym(truthy) else not truthy}

    def result(c, cx, pub_key_bits, sig_ptrs):
        b = cx.run.fresh_bool('sig_verifies')
        cx.run.ghost.setdefault('verify_sig_calls', []).append((pub_key_bits, sig_ptrs, b))
        return b


class NameRef:
    """a certificate / key-locator name; equality with the anchor's name is a ghost boolean"""
    opaque_value = True

    def __init__(self, run, label):
        self.label = label
        self.run = run
        self.is_anchor = run.input_bool(f'{label}_is_anchor_name')
        self.same_as = {}

    def truth(self, it):
        return True

    def compare(self, it, op, other, node):
        import ast
        if other is ANCHOR_NAME:
            r = self.is_anchor
        elif other is self:
            r = True
        elif other is None or isinstance(other, (bool, int, str)):
            r = False
        else:
            # an arbitrary name may or may not equal any other given name: one ghost boolean per name compared with
            if id(other) not in self.same_as:
                self.same_as[id(other)] = (other, self.run.fresh_bool(f'{self.label}_equals_other_name'))
            r = self.same_as[id(other)][1]
        return r if isinstance(op, ast.Eq) else Not(r)

    def getslice(self, it, lo, hi, node):
        """a part of the certificate name (e.g. the key name): some other name, NOT the certificate name itself"""
        return Opaque('name_part', f'{self.label}[{lo}:{hi}]')


ANCHOR_NAME = Opaque('anchor_name', 'anchor')


class Storage:
    def __init__(self, run):
        self.run, self.loads, self.saves = run, [], []
        self.cached = None

    def getattr_(self, it, name, node):
        if name == 'load':
            def f(it_, nm):
                self.loads.append(nm)
                k = it_.run.choose([('not cached', True), ('cached', True)], 'storage.load')
                self.cached = KeyBits('cached key') if k == 'cached' else None
                return self.cached
            return _M(f)
        if name == 'save':
            def f(it_, nm, bits):
                self.saves.append((nm, bits))
            return _M(f)
        raise Unsupported(f'storage.{name}')


class FetchApp:
    def __init__(self, run):
        self.run, self.calls = run, []
        self.fetched = None

    def getattr_(self, it, name, node):
        if name != 'express_interest':
            raise Unsupported(f'app.{name}')

        def f(it_, *a, **kw):
            self.calls.append(kw)

            def thunk():
                tag = it_.run.choose([('data', True)] + [(e, True) for e in HANDLED], 'certificate fetch')
                if tag != 'data':
                    raise PyExc(tag, ('fetch failed',), getattr(node, 'lineno', None), it_.where())
                ek = it_.run.choose([('content', True), ('empty content', True)], 'certificate content')
                self.fetched = KeyBits('fetched key', empty=(ek == 'empty content')) if ek == 'content' else None
                return (Opaque('token', 'n'), Opaque('token', 'm'), self.fetched)
            return CoroVal(thunk, 'express_interest')
        return _M(f)


@contract
class validate(Contract):
    fn = cv.CascadeChecker.validate
    props = ('C14',)
    doc = ('CascadeChecker.validate returns True only if the packet names a key locator and its signature verifies '
           '(_verify_sig) under key bits that are the anchor key (locator == anchor name), a cached key, or the content of a '
           'certificate fetched with validator = next level (must_be_fresh, exact name); a Nack / timeout / validation failure '
           'of the fetch, a missing locator or empty key bits give False; a fetched key is cached only after a successful fetch')
    raises = {}

    def setup(self, cx):
        run = cx.run
        lk = run.choose([('no signature info', True), ('no key locator', True), ('locator without name', True), ('locator', True)], 'locator')
        cert_name = NameRef(run, 'cert_name') if lk == 'locator' else None
        if lk == 'no signature info':
            si = None
        else:
            kl = None if lk == 'no key locator' else SymObj(object, dict(name=cert_name))
            si = SymObj(object, dict(key_locator=kl, signature_type=SignatureType.SHA256_WITH_ECDSA))
        sig = SymObj(object, dict(signature_info=si))
        storage, app = Storage(run), FetchApp(run)
        nxt = Opaque('validator', 'next_level')
        import logging
        self_ = SymObj(cv.CascadeChecker, dict(app=app, next_level=nxt, storage=storage, anchor_key=KeyBits('anchor key'),
                                               anchor_name=ANCHOR_NAME, logger=logging.getLogger('ndn.security.validator.cascade_validator')))
        run.ghost['val'] = dict(storage=storage, app=app, next=nxt, cert_name=cert_name, lk=lk)
        return dict(self=self_, name=Opaque('token', 'packet name'), sig_ptrs=sig)

    def post(c, cx, result, self, name, sig_ptrs):
        g = cx.run.ghost['val']
        storage, app, cert_name = g['storage'], g['app'], g['cert_name']
        vs = cx.run.ghost.get('verify_sig_calls', [])
        truthy = cx.it.truth(result)
        out = {}
        if g['lk'] != 'locator':
            out['no_key_locator_is_refused'] = (result is False) and vs == [] and app.calls == []
            return out
        out['at_most_one_fetch'] = len(app.calls) <= 1
        if app.calls:
            kw = app.calls[0]
            out['fetch_uses_next_level_validator_and_exact_fresh_name'] = kw.get('validator') is g['next'] and kw.get('name') is cert_name \
                and kw.get('must_be_fresh') is True and kw.get('can_be_prefix') is False
            out['fetch_only_when_not_anchor_and_not_cached'] = And(Not(cert_name.is_anchor), storage.cached is None)
        if len(vs) == 1:
            bits, sig, b = vs[0]
            src_ok = Or(And(cert_name.is_anchor, bits is self.d['anchor_key']),
                        And(Not(cert_name.is_anchor), storage.cached is not None and bits is storage.cached),
                        And(Not(cert_name.is_anchor), app.fetched is not None and bits is app.fetched))
            out['verdict_is_signature_check_under_a_legitimate_key'] = And(Iff(truthy, b), sig is sig_ptrs, src_ok)
        else:
            out['no_signature_check_means_refusal'] = And(len(vs) == 0, result is False)
        out['cache_written_only_with_fetched_key'] = all(bits is app.fetched and nm is cert_name for nm, bits in storage.saves) and len(storage.saves) <= 1
        out['cache_addressed_by_the_full_certificate_name'] = all(nm is cert_name for nm in storage.loads)
        return out


@contract
class checker_init(Contract):
    fn = cv.CascadeChecker.__init__
    props = ('C14',)
    doc = ('CascadeChecker(app, anchor[, storage]) is built only if the anchor decodes and its own signature verifies under the key '
           'bits in its own content (_verify_sig); otherwise it raises.  The next level of the cascade is the checker itself, the '
           'anchor name is a copy of the parsed certificate name, and without an explicit storage every checker gets a cache of '
           'its own (an instance-owned dict), never one shared through the class')
    raises = {ValueError: lambda cx, **p: True, TypeError: lambda cx, **p: True,
              **{e: (lambda cx, **p: True) for e in (cv.__dict__.get('DecodeError') or __import__('ndn.encoding', fromlist=['DecodeError']).DecodeError,
                                                       IndexError, __import__('struct').error)}}

    def setup(self, cx):
        run = cx.run
        sk = run.choose([('default storage', True), ('given storage', True)], 'storage')
        st = None if sk == 'default storage' else Storage(run)
        run.ghost['init.storage'] = st
        return dict(self=SymObj(cv.CascadeChecker, {}), app=Opaque('app', 'app'), trust_anchor=run.input_buf('anchor', 'bytes'),
                    storage=st)

    def post(c, cx, result, self, app, trust_anchor, storage):
        vs = cx.run.ghost.get('verify_sig_calls', [])
        out = {'self_signature_was_checked_once': len(vs) == 1}
        if len(vs) == 1:
            bits, sig, b = vs[0]
            out['built_only_if_self_signature_verifies'] = And(b, bits is self.d.get('anchor_key'))
        out['cascade_recurses_into_itself'] = self.d.get('next_level') is self and self.d.get('app') is app
        nm = self.d.get('anchor_name')
        out['anchor_name_is_copy_of_parsed_name'] = getattr(nm, 'snapshot_of', None) is not None
        st = self.d.get('storage')
        if storage is not None:
            out['given_storage_used'] = st is storage
        else:
            own = isinstance(st, SymObj) and st.cls is cv.MemoryKeyStorage and isinstance(st.d.get('_cache'), dict) and st.d['_cache'] == {}
            out['default_cache_is_owned_by_this_checker'] = own
        return out

    def xpost(c, cx, exc, self, app, trust_anchor, storage):
        vs = cx.run.ghost.get('verify_sig_calls', [])
        if exc.cls is ValueError and len(vs) == 1:
            return {'refusal_follows_failed_self_signature': Not(vs[0][2])}
        return {}


# ----------------------------------------------------------------------------- union_checker and lvs_validator
from ndn.security.validator import digest_validator as dv          # noqa: E402
from ndn.app_support.light_versec import validator as lv           # noqa: E402
from contracts.assumed_aio import UserCoroutineFn                  # noqa: E402
from pyvc.values import InterpFunction                             # noqa: E402

ANSWERS = [True, False, None, 1, 0]


def _truthy(v):
    return v is True or v == 1 and v is not False


@contract
class union_checker(Contract):
    fn = dv.union_checker
    props = ('C14', 'C05')
    doc = ('union_checker(c1, c2, c3)(name, sig) is True iff every checker answers truthy; checkers are asked in order with the '
           'same (name, sig), each at most once, and none after the first refusal; the verdict is a bool')
    raises = {}

    def setup(self, cx):
        cs = [UserCoroutineFn(f'checker{i}', ANSWERS) for i in range(3)]
        cx.run.ghost['uc'] = cs
        return dict(args=tuple(cs))

    def post(c, cx, result, args):
        it = cx.it
        name, sig = Opaque('token', 'name'), Opaque('token', 'sig')
        verdict = it.await_value(it.call(result, [name, sig], {}, None))
        cs = cx.run.ghost['uc']
        answers = [cx.run.ghost.get(f'{k.label}.returned', 'not asked') if k.calls else 'not asked' for k in cs]
        asked = [len(k.calls) for k in cs]
        first_refusal = next((i for i, a in enumerate(answers) if a == 'not asked' or not _truthy(a)), None)
        all_ok = all(a != 'not asked' and _truthy(a) for a in answers)
        out = {'verdict_is_conjunction': verdict is all_ok,
               'each_checker_asked_at_most_once_in_order': all(n <= 1 for n in asked) and asked == sorted(asked, reverse=True),
               'same_packet_for_every_checker': all(k.calls[0] == ((name, sig), {}) for k in cs if k.calls)}
        if first_refusal is not None:
            out['nobody_asked_after_first_refusal'] = all(n == 0 for n in asked[first_refusal + 1:])
        return out


class LvsChecker:
    """the compiled schema as seen by lvs_validator: ghost booleans for its three queries"""

    def __init__(self, run):
        self.run = run
        self.fns_ok = run.input_bool('user_fns_complete')
        self.no_match = run.input_bool('anchor_matches_nothing')
        self.covers = run.input_bool('anchor_matches_every_root')
        self.checks = []
        self.match_args = []

    def getattr_(self, it, name, node):
        if name == 'root_of_trust':
            return _M(lambda it_: RootSet(self))
        if name == 'validate_user_fns':
            return _M(lambda it_: self.fns_ok)
        if name == 'match':
            def match(it_, nm):
                self.match_args.append(nm)
                return MatchIter(self)
            return _M(match)
        if name == 'check':
            def check(it_, pkt, key):
                b = it_.run.fresh_bool('schema_allows')
                self.checks.append((pkt, key, b))
                return b
            return _M(check)
        raise Unsupported(f'checker.{name}')


class MatchIter:
    """the matches of the anchor name: iteration yields ONE opaque token standing for all (rule names, bindings) rows"""

    def __init__(self, ck):
        self.ck = ck

    def iterate(self, it, node):
        return [MatchRows(self.ck)]


class MatchRows:
    def __init__(self, ck):
        self.ck = ck

    def getitem(self, it, idx, node):
        if idx != 0:
            raise Unsupported('only the rule-name column of a match is modelled')
        return self


class MatchList:
    def __init__(self, ck):
        self.ck = ck

    def truth(self, it):
        return Not(self.ck.no_match)


class RootSet:
    def __init__(self, ck):
        self.ck = ck

    def getattr_(self, it, name, node):
        if name == 'issubset':
            def f(it_, other):
                if not isinstance(other, MatchList):
                    raise Unsupported('issubset of something else than the anchor matches')
                return self.ck.covers
            return _M(f)
        raise Unsupported(f'set.{name}')


def _install2():
    from pyvc import models

    def m_sum(it, args, kwargs, node):
        a = args[0]
        if isinstance(a, list) and len(a) == 1 and isinstance(a[0], MatchRows) and kwargs.get('start') == []:
            return MatchList(a[0].ck)
        if isinstance(a, list) and all(isinstance(x, int) and not isinstance(x, bool) for x in a) and not kwargs and len(args) == 1:
            return sum(a)
        raise Unsupported('sum() of symbolic values')
    models.BUILTIN_MODELS[sum] = m_sum


_install2()


@contract
class lvs_validator(Contract):
    fn = lv.lvs_validator
    props = ('C14',)
    doc = ('lvs_validator(checker, app, anchor[, storage]) is built only if every user function is present, the anchor name matches '
           'some rule and the matched rules cover every root of trust, and the anchor is properly self-signed; the validator it '
           'returns asks the schema check (key locator present and checker.check(packet name, key name)) and then the cascade, '
           'and the cascade validates fetched certificates with this same validator (next_level), so every link of the chain is '
           'checked against the schema')
    raises = {ValueError: lambda cx, **p: True, TypeError: lambda cx, **p: True,
              **{e: (lambda cx, **p: True) for e in (__import__('ndn.encoding', fromlist=['DecodeError']).DecodeError,
                                                       IndexError, __import__('struct').error)}}

    def setup(self, cx):
        run = cx.run
        ck = LvsChecker(run)
        run.ghost['lv.ck'] = ck
        return dict(checker=ck, app=Opaque('app', 'app'), trust_anchor=run.input_buf('anchor', 'bytes'), storage=None)

    def xpost(c, cx, exc, checker, app, trust_anchor, storage):
        return {}

    def post(c, cx, result, checker, app, trust_anchor, storage):
        it, run = cx.it, cx.run
        vs = run.ghost.get('verify_sig_calls', [])
        out = {'built_only_for_a_sane_schema_and_anchor': And(checker.fns_ok, Not(checker.no_match), checker.covers),
               'anchor_self_signature_checked': len(vs) == 1 and vs[0][2]}
        ok = isinstance(result, InterpFunction) and result.qualname.endswith('union_checker.<locals>.wrapper')
        out['returns_a_union_checker'] = ok
        if not ok:
            return out
        parts = result.frame.lookup('args')
        shape = isinstance(parts, tuple) and len(parts) == 2 and isinstance(parts[0], InterpFunction) and \
            parts[0].qualname.endswith('validate_name') and isinstance(parts[1], SymObj) and parts[1].cls is cv.CascadeChecker
        out['union_of_schema_check_and_cascade'] = shape
        if not shape:
            return out
        out['cascade_validates_certificates_with_the_union'] = parts[1].d.get('next_level') is result
        out['cascade_anchored_at_this_anchor'] = parts[1].d.get('app') is app
        # the schema half: refuses a packet without key locator, otherwise the verdict is checker.check(name, key name)
        lk = run.choose([('no signature info', True), ('no key locator', True), ('locator without name', True), ('locator', True)], 'locator')
        cert_name = NameRef(run, 'cert_name') if lk == 'locator' else None
        si = None if lk == 'no signature info' else SymObj(object, dict(
            key_locator=None if lk == 'no key locator' else SymObj(object, dict(name=cert_name))))
        pkt, sig = Opaque('token', 'packet name'), SymObj(object, dict(signature_info=si))
        n0 = len(checker.checks)
        verdict = it.await_value(it.call(parts[0], [pkt, sig], {}, None))
        new = checker.checks[n0:]
        if lk != 'locator':
            out['schema_half_refuses_without_key_locator'] = verdict is False and new == []
        else:
            out['schema_half_is_the_signing_check'] = len(new) == 1 and new[0][0] is pkt and new[0][1] is cert_name and verdict is new[0][2]
        return out
