"""Contracts for ndn/security/validator/digest_validator.py (property C02): params_sha256_checker and sha256_digest_checker
hash EVERY covered block, in order, exactly once, and compare the digest with the value buffer of the packet.
SHA-256 is an uninterpreted function of the block sequence (models.Sha256Obj)."""
import z3
from ndn.security.validator import digest_validator as dv
from ndn.encoding import SignatureType
from pyvc.zutil import *
from pyvc.contracts import Contract, contract, LoopSpec
from pyvc.run import View, Unsupported
from pyvc.values import SymObj, Opaque
from pyvc.symseq import BufSeq
from pyvc.models import Sha256Obj
from contracts.name import bytes_equal


class Fed:
    """ghost block marker: the first k blocks of `seq` were fed, in order"""

    def __init__(self, seq, k):
        self.seq, self.k = seq, k


def fed_prefix(sha, seq):
    """(k, ok): the blocks fed to `sha` are exactly the first k blocks of seq in order; ok is a formula"""
    blocks = list(sha.blocks)
    k, ok = 0, True
    if blocks and isinstance(blocks[0][0], Fed):
        if blocks[0][0].seq is not seq:
            return 0, False
        k = blocks[0][0].k
        blocks = blocks[1:]
    conds = []
    for (v, h) in blocks:
        if not isinstance(v, View):
            return 0, False
        e_cell, e_start, e_len = z3.Select(seq.cells, zint(k)), z3.Select(seq.starts, zint(k)), z3.Select(seq.lens, zint(k))
        conds.append(And(Eq(v.cell, e_cell), Eq(v.start, e_start), Eq(v.length, e_len)))
        k = simp(zint(k) + 1)
    return k, And(*conds) if conds else True


def _inv(which):
    def inv(it, env, g):
        seq = g['seq']
        k, ok = fed_prefix(env['sha256_algo'], seq)
        return {'exactly_the_blocks_so_far_were_hashed_in_order': And(ok, Eq(zint(k), zint(g['i'])))}
    return inv


def _havoc_sha(it, env, g):
    """loop head: some number k of blocks was fed (the invariant pins k to the iteration index)"""
    s = Sha256Obj(it)
    s.blocks = [(Fed(g['seq'], it.run.fresh_int('fed')), None)]
    return s


LOOPS = {1: LoopSpec(_inv('p'), havoc={'sha256_algo': _havoc_sha})}


def mk_sig(cx, digest_side):
    run = cx.run
    ck = run.choose([('covered blocks', True), ('covered=None', True)], 'covered part')
    covered = run.input_bufseq('covered', 'memoryview') if ck == 'covered blocks' else None
    vk = run.choose([('value', True), ('value=None', True)], 'value buffer')
    value = run.input_buf('value', 'memoryview') if vk == 'value' else None
    d = dict(signature_info=None, signature_covered_part=None, signature_value_buf=None, digest_covered_part=None, digest_value_buf=None)
    if digest_side:
        d['digest_covered_part'], d['digest_value_buf'] = covered, value
    else:
        d['signature_covered_part'], d['signature_value_buf'] = covered, value
    return SymObj(object, d), covered, value


def digest_clauses(cx, result, covered, value, applicable=True):
    run, it = cx.run, cx.it
    calls = run.ghost.get('sha256_calls', [])
    truthy = it.truth(result)
    if covered is None or value is None:
        return {'missing_part_is_refused': truthy is False or result is False}
    empty = Or(Eq(zint(covered.n), 0), Eq(zint(value.length), 0))
    out = {}
    if len(calls) == 0:
        out['refused_without_hashing_only_when_a_part_is_empty'] = And(empty, Not(truthy) if is_sym(truthy) else (not truthy))
        return out
    out['hashed_once'] = len(calls) == 1
    dig, blocks, h = calls[0]
    sha = Sha256Obj.__new__(Sha256Obj)
    sha.blocks = blocks
    k, ok = fed_prefix(sha, covered)
    out['digest_is_over_every_covered_block_in_order'] = And(ok, Eq(zint(k), zint(covered.n)))
    same = And(Eq(zint(value.length), 32), bytes_equal(run.heap, dig, 0, run.heap, value, 0, 32))
    out['accepted_iff_digest_equals_the_value_buffer'] = Iff(truthy, And(Not(empty), same))
    return out


class _Base(Contract):
    raises = {}
    props = ('C02',)


@contract
class params_sha256_checker(_Base):
    fn = dv.params_sha256_checker
    doc = ('params_sha256_checker(name, sig), for ANY number of covered blocks: True iff the digest-covered part and the digest value '
           'buffer are both present and non-empty and SHA-256 over every covered block, in order, once, equals the value buffer; '
           'nothing is raised')
    loops = LOOPS

    def setup(self, cx):
        sig, covered, value = mk_sig(cx, True)
        cx.run.ghost['dc'] = (covered, value)
        return dict(name=Opaque('token', 'name'), sig=sig)

    def post(c, cx, result, name, sig):
        covered, value = cx.run.ghost['dc']
        out = {'returns_bool': isinstance(result, bool) or is_sym(result)}
        out.update(digest_clauses(cx, result, covered, value))
        return out



@contract
class sha256_digest_checker(_Base):
    fn = dv.sha256_digest_checker
    doc = ('sha256_digest_checker(name, sig), for ANY number of covered blocks: for a packet announcing DigestSha256, True iff the '
           'signature-covered part and the signature value are present, non-empty and SHA-256 over every covered block, in order, '
           'once, equals the value; a packet with another signature type - or none - is passed through (True) without hashing '
           '[documented pass-through: known finding F-C02-digest-checker-passthrough]; nothing is raised')
    loops = LOOPS

    def setup(self, cx):
        run = cx.run
        sig, covered, value = mk_sig(cx, False)
        tk = run.choose([('no signature info', True), ('digest', True), ('other type', True)], 'signature info')
        if tk != 'no signature info':
            st = SignatureType.DIGEST_SHA256 if tk == 'digest' else run.input_int('signature_type')
            if tk == 'other type':
                run.assume(st != int(SignatureType.DIGEST_SHA256))
            sig.d['signature_info'] = SymObj(object, dict(signature_type=st))
        run.ghost['dc'] = (covered, value, tk)
        return dict(name=Opaque('token', 'name'), sig=sig)

    def post(c, cx, result, name, sig):
        covered, value, tk = cx.run.ghost['dc']
        if tk != 'digest':
            return {'other_packets_passed_through_without_hashing': result is True and cx.run.ghost.get('sha256_calls', []) == []}
        out = {'returns_bool': isinstance(result, bool) or is_sym(result)}
        out.update(digest_clauses(cx, result, covered, value))
        return out
