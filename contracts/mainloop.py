"""Contracts for connection start-up and shutdown (properties C17 auto-registration, C03 shutdown): the nested
starting_task of main_loop (both front-ends): every remembered route is registered exactly once, in order, then the
user's start coroutine runs; and main_loop's own ordering: open, start task, run, shut the face down, clean up, await
the start task."""
import asyncio
import logging
import z3
from ndn import appv2, app as app1
from pyvc.zutil import *
from pyvc.contracts import Contract, contract, LoopSpec
from pyvc.run import Unsupported
from pyvc.values import SymObj, Opaque, PyExc, CoroVal
from contracts.assumed_aio import _M

NROUTES = z3.Int('N_AUTOREG_ROUTES')
BOOLARR = z3.ArraySort(INT, z3.BoolSort())


class RouteTok:
    def __init__(self, j):
        self.j = j


class Routes:
    def __init__(self, tuple5):
        self.tuple5 = tuple5

    def seq_len(self):
        return NROUTES

    def elem(self, it, i):
        i = simp(zint(i))
        if self.tuple5:
            return (RouteTok(i), Opaque('route_fn', 'fn'), Opaque('route_val', 'validator'), Opaque('flag', 'raw'), Opaque('flag', 'sig'))
        return RouteTok(i)

    def iterate(self, it, node):
        raise Unsupported('iteration over the remembered routes needs a loop specification')


class FaceM:
    def __init__(self, run):
        self.run, self.log = run, []

    def getattr_(self, it, name, node):
        if name == 'shutdown':
            return _M(lambda it_: self.log.append('shutdown'))
        raise Unsupported(f'face.{name}')


def _st_world(run):
    return run.ghost['st']


class AfterStart:
    """the user's start coroutine: runs once when awaited; may raise"""

    def __init__(self, run):
        self.run = run
        self.awaited = 0

    def truth(self, it):
        return True

    def await_(self, it, node):
        self.awaited += 1
        w = _st_world(it.run)
        w['events'].append('after_start')
        tag = it.run.choose([('ok', True), (RuntimeError, True), (asyncio.CancelledError, True)], 'after_start')
        if tag != 'ok':
            raise PyExc(tag, ('from after_start',), getattr(node, 'lineno', None), it.where())
        return None


def _register_summary(fn_):
    class _C(Contract):
        fn = fn_
        assumed = True

        def use_contract_at(c, it, args, kwargs):
            return 'st' in it.run.ghost

        def apply_at(c, cx, p, node, site):
            it, run = cx.it, cx.run
            w = _st_world(run)

            def thunk():
                nm = p['name']
                j = zint(nm.j)
                if run.branch(z3.Select(w['registered'], j), 'route.registered_twice'):
                    w['double'] = True
                w['registered'] = z3.Store(w['registered'], j, z3.BoolVal(True))
                w['events'].append('register')
                w['args'].append(p)
                return run.fresh_bool('registered_ok')
            return thunk()          # apply_contract already defers the summary of an async function to the await
    _C.__name__ = 'register_summary_' + fn_.__module__.replace('.', '_')
    return contract(_C)


_register_summary(appv2.NDNApp.register)
_register_summary(app1.NDNApp.register)


def _st_inv(it, env, g):
    w = _st_world(it.run)
    a = z3.Int('a!st')
    return {'exactly_the_routes_so_far_are_registered_once': And(
        z3.ForAll([a], z3.Select(w['registered'], a) == z3.And(a >= 0, a < zint(g['i']))), w['double'] is False),
        'start_coroutine_not_run_yet': 'after_start' not in w['events']}


def _st_havoc(it, env, g):
    w = _st_world(it.run)
    w['registered'] = z3.Const(it.run.fresh_name('registered'), BOOLARR)
    w['args'].clear()
    w['events'][:] = [e for e in w['events'] if e != 'register']
    return env.get('name')


class _StartBase(Contract):
    props = ('C17',)
    nested = 'starting_task'
    raises = {RuntimeError: lambda cx, **p: True, asyncio.CancelledError: lambda cx, **p: True}
    tuple5 = False
    cls = None

    def setup(self, cx):
        run = cx.run
        run.assume(NROUTES >= 0)
        ak = run.choose([('after_start', True), ('after_start=None', True)], 'after_start')
        face = FaceM(run)
        w = dict(registered=z3.K(INT, z3.BoolVal(False)), double=False, events=[], args=[], face=face,
                 after=AfterStart(run) if ak == 'after_start' else None)
        run.ghost['st'] = w
        w['self'] = SymObj(self.cls, dict(_autoreg_routes=Routes(self.tuple5), face=face, logger=logging.getLogger('ndn')))
        return {}

    def closure(self, cx):
        w = cx.run.ghost['st']
        return dict(self=w['self'], after_start=w['after'])

    def _routes(c, cx):
        w = cx.run.ghost['st']
        a = z3.Int('a!sp')
        return And(z3.ForAll([a], z3.Select(w['registered'], a) == z3.And(a >= 0, a < NROUTES)), w['double'] is False)

    def post(c, cx, result):
        w = cx.run.ghost['st']
        out = {'every_remembered_route_registered_exactly_once': c._routes(cx)}
        if w['after'] is not None:
            out['start_coroutine_awaited_once_after_the_registrations'] = w['after'].awaited == 1 and w['events'][-1:] == ['after_start']
        out['face_left_running'] = w['face'].log == []
        if c.tuple5 and w['args']:
            p = w['args'][-1]
            out['route_registered_with_its_own_handler_validator_and_flags'] = isinstance(p.get('func'), Opaque) and p['func'].typ == 'route_fn' \
                and p['validator'].typ == 'route_val'
        return out

    def xpost(c, cx, exc):
        w = cx.run.ghost['st']
        out = {'only_the_start_coroutine_can_fail': w['after'] is not None and w['after'].awaited == 1,
               'routes_were_registered_before': c._routes(cx)}
        if exc.cls is RuntimeError:
            out['face_shut_down_when_the_start_coroutine_fails'] = w['face'].log == ['shutdown']
        return out


@contract
class starting_task_v2(_StartBase):
    fn = appv2.NDNApp.main_loop
    cls = appv2.NDNApp
    doc = ('appv2 main_loop.starting_task, ANY number of remembered routes: every route is registered exactly once, in order, before the '
           'user\'s start coroutine runs (once); if that coroutine fails with an Exception the face is shut down and the failure '
           're-raised; a cancellation passes through')
    loops = {1: LoopSpec(_st_inv, havoc={'name': _st_havoc})}


@contract
class starting_task_v1(_StartBase):
    fn = app1.NDNApp.main_loop
    cls = app1.NDNApp
    tuple5 = True
    doc = ('legacy main_loop.starting_task: same contract; every remembered route is registered with its own handler, validator and '
           'flags')
    loops = {1: LoopSpec(_st_inv, havoc={'name': _st_havoc, 'route': lambda it, env, g: None, 'validator': lambda it, env, g: None,
                                         'need_raw_packet': lambda it, env, g: None, 'need_sig_ptrs': lambda it, env, g: None})}


# ----------------------------------------------------------------------------- main_loop ordering (appv2 and legacy)
OPEN_ERRORS = (FileNotFoundError, ConnectionError, OSError, PermissionError)


class FaceL:
    def __init__(self, run, ev):
        self.run, self.ev = run, ev

    def getattr_(self, it, name, node):
        run, ev = self.run, self.ev
        if name == 'open':
            def f(it_):
                def thunk():
                    tag = run.choose([('ok', True)] + [(e, True) for e in OPEN_ERRORS], 'face.open')
                    ev.append(('open', tag))
                    if tag != 'ok':
                        raise PyExc(tag, ('cannot connect',), getattr(node, 'lineno', None), it_.where())
                return CoroVal(thunk, 'face.open')
            return _M(f)
        if name == 'run':
            def f(it_):
                def thunk():
                    tag = run.choose([('returns', True), (asyncio.CancelledError, True), (RuntimeError, True)], 'face.run')
                    ev.append(('run', tag))
                    if tag != 'returns':
                        raise PyExc(tag, ('from face.run',), getattr(node, 'lineno', None), it_.where())
                return CoroVal(thunk, 'face.run')
            return _M(f)
        if name == 'shutdown':
            return _M(lambda it_: ev.append(('shutdown',)))
        raise Unsupported(f'face.{name}')


class AfterObj:
    """after_start as seen by main_loop itself: a coroutine object, a task / future, or another awaitable"""

    def __init__(self, kind, ev):
        self.kind, self.ev = kind, ev

    def truth(self, it):
        return True

    def isinstance_(self, t):
        import typing
        import collections.abc
        if t in (typing.Coroutine, collections.abc.Coroutine):
            return self.kind == 'coroutine'
        if isinstance(t, tuple):
            return any(self.isinstance_(x) for x in t)
        if t in (asyncio.Task, asyncio.Future):
            return self.kind == 'task'
        return False

    def getattr_(self, it, name, node):
        if name in ('close', 'cancel'):
            return _M(lambda it_: self.ev.append(('after_start.' + name,)))
        raise Unsupported(f'after_start.{name}')


def _ml_summaries():
    def start_result(c, cx, **p):
        cx.run.ghost['ml']['ev'].append(('starting_task',))
        return None

    for k in (starting_task_v2, starting_task_v1):
        k.result = start_result
        k.post_assumed = lambda c, cx, result, **p: {}
        k.use_contract_at = lambda c, it, args, kwargs: 'ml' in it.run.ghost


_ml_summaries()


def _cleanup_summary(fn_):
    class _C(Contract):
        fn = fn_
        assumed = True

        def use_contract_at(c, it, args, kwargs):
            return 'ml' in it.run.ghost

        def result(c, cx, self):
            cx.run.ghost['ml']['ev'].append(('clean_up',))
            return None
    _C.__name__ = 'cleanup_summary_' + fn_.__module__.replace('.', '_')
    return contract(_C)


_cleanup_summary(appv2.NDNApp._clean_up)
_cleanup_summary(app1.NDNApp._clean_up)


class _MainLoop(Contract):
    props = ('C03', 'C17')
    raises = {**{e: (lambda cx, **p: True) for e in OPEN_ERRORS}, RuntimeError: lambda cx, **p: True,
              asyncio.CancelledError: lambda cx, **p: True}
    cls = None

    def setup(self, cx):
        run = cx.run
        ev = []
        ak = run.choose([('after_start=None', True), ('coroutine', True), ('task', True), ('other awaitable', True)], 'after_start')
        after = None if ak == 'after_start=None' else AfterObj(ak, ev)
        run.ghost['ml'] = dict(ev=ev, after=after)
        self_ = SymObj(self.cls, dict(face=FaceL(run, ev), logger=logging.getLogger('ndn'), _autoreg_routes=[]))
        return dict(self=self_, after_start=after)

    def _order(c, ev, keep_start=True):
        return [e[0] for e in ev if keep_start or e[0] != 'starting_task']

    def post(c, cx, result, self, after_start):
        ev = cx.run.ghost['ml']['ev']
        names = c._order(ev)
        run_tag = next((e[1] for e in ev if e[0] == 'run'), None)
        return {'connect_start_run_shutdown_cleanup_in_this_order': names == ['open', 'starting_task', 'run', 'shutdown', 'clean_up'],
                'start_task_awaited_before_returning': len(cx.run.ghost.get('task_awaits', [])) == 1,
                'true_iff_the_face_ended_by_itself': (result is True and run_tag == 'returns') or
                                                     (result is False and run_tag is asyncio.CancelledError)}

    def xpost(c, cx, exc, self, after_start):
        g = cx.run.ghost['ml']
        ev = g['ev']
        names = c._order(ev, keep_start=False)      # (a start task that fails leaves no event: its failure shows when it is awaited)
        if names[:1] == ['open'] and ev[0][1] != 'ok':
            want = ['open']
            if g['after'] is not None and g['after'].kind == 'coroutine':
                want.append('after_start.close')
            elif g['after'] is not None and g['after'].kind == 'task':
                want.append('after_start.cancel')
            return {'failed_connect_disposes_of_the_start_coroutine_and_does_nothing_else': names == want and exc.cls is ev[0][1]}
        run_tag = next((e[1] for e in ev if e[0] == 'run'), None)
        if run_tag is RuntimeError:
            return {'face_shut_down_even_when_run_fails': names == ['open', 'run', 'shutdown']}
        # the start task failed: reported when it is awaited, after shutdown and clean-up
        return {'start_task_failure_reported_after_shutdown_and_cleanup': names == ['open', 'run', 'shutdown', 'clean_up']}


@contract
class main_loop_v2(_MainLoop):
    fn = appv2.NDNApp.main_loop
    cls = appv2.NDNApp
    doc = ('appv2 main_loop: connect; if that fails the start coroutine is closed (a task / future cancelled) and the error re-raised with '
           'nothing else done; otherwise the start task is created, the face runs, and - however run() ends - the face is shut down, '
           'then the pending table is cleaned up, then the start task is awaited; returns True iff the face ended by itself, False '
           'after a cancellation')


@contract
class main_loop_v1(_MainLoop):
    fn = app1.NDNApp.main_loop
    cls = app1.NDNApp
    doc = 'legacy main_loop: same ordering contract (plus a fresh registration semaphore)'


# ----------------------------------------------------------------------------- route decorators
class RouteList:
    def __init__(self):
        self.items = []

    def getattr_(self, it, name, node):
        if name == 'append':
            return _M(lambda it_, v: self.items.append(v))
        raise Unsupported(f'list.{name} on the remembered routes')


class FaceR:
    def __init__(self, run):
        self.running = run.input_bool('face.running')

    def getattr_(self, it, name, node):
        if name == 'running':
            return self.running
        raise Unsupported(f'face.{name}')


def _attach_summary():
    class _C(Contract):
        fn = appv2.NDNApp.attach_handler
        assumed = True
        raises = {ValueError: lambda cx, **p: True}

        def use_contract_at(c, it, args, kwargs):
            return 'rt' in it.run.ghost

        def result(c, cx, **p):
            cx.run.ghost['rt']['attached'].append(p)
            return None
    return contract(_C)


_attach_summary()


def _register_rt(fn_):
    class _C(Contract):
        fn = fn_
        assumed = True

        def use_contract_at(c, it, args, kwargs):
            return 'rt' in it.run.ghost

        def apply_at(c, cx, p, node, site):
            cx.run.ghost['rt']['registered'].append(p)
            return cx.run.fresh_bool('registered_ok')
    _C.__name__ = 'register_rt_' + fn_.__module__.replace('.', '_')
    return contract(_C)


_register_rt(appv2.NDNApp.register)
_register_rt(app1.NDNApp.register)


class _RouteBase(Contract):
    nested = 'decorator'
    props = ('C04', 'C17')
    cls = None

    def setup(self, cx):
        run = cx.run
        routes = RouteList()
        face = FaceR(run)
        g = dict(attached=[], registered=[], routes=routes, face=face, name=Opaque('token', 'normalised prefix'),
                 validator=Opaque('validator', 'validator'))
        run.ghost['rt'] = g
        g['self'] = SymObj(self.cls, dict(_autoreg_routes=routes, face=face, logger=logging.getLogger('ndn')))
        return dict(func=Opaque('route_fn', 'handler'))


@contract
class route_decorator_v2(_RouteBase):
    fn = appv2.NDNApp.route
    cls = appv2.NDNApp
    doc = ('appv2 route(...)(func): the prefix is remembered for re-registration, func is attached to exactly this prefix with the given '
           'validator (a duplicate attach is refused with ValueError), a registration is started at once iff the face is running, '
           'and func itself is returned')
    raises = {ValueError: lambda cx, **p: True}

    def closure(self, cx):
        g = cx.run.ghost['rt']
        return dict(self=g['self'], name=g['name'], validator=g['validator'])

    def post(c, cx, result, func):
        g = cx.run.ghost['rt']
        tasks = cx.run.ghost.get('tasks', [])
        return {'prefix_remembered_once': g['routes'].items == [g['name']],
                'handler_attached_at_this_prefix_with_the_validator': len(g['attached']) == 1 and g['attached'][0]['name'] is g['name'] and
                g['attached'][0]['handler'] is func and g['attached'][0]['validator'] is g['validator'],
                'registered_at_once_iff_connected': And(Iff(g['face'].running, len(g['registered']) == 1), len(g['registered']) <= 1,
                                                        all(r['name'] is g['name'] for r in g['registered'])),
                'returns_the_function_itself': result is func}


@contract
class route_decorator_v1(_RouteBase):
    fn = app1.NDNApp.route
    cls = app1.NDNApp
    doc = ('legacy route(...)(func): prefix, handler, validator and flags are remembered for (re-)registration; a registration carrying '
           'exactly these is started at once iff the face is running; func itself is returned')
    raises = {}

    def closure(self, cx):
        g = cx.run.ghost['rt']
        g['flags'] = (Opaque('flag', 'raw'), Opaque('flag', 'sig'))
        return dict(self=g['self'], name=g['name'], validator=g['validator'], need_raw_packet=g['flags'][0], need_sig_ptrs=g['flags'][1])

    def post(c, cx, result, func):
        g = cx.run.ghost['rt']
        want = (g['name'], func, g['validator'], g['flags'][0], g['flags'][1])
        ok_reg = all(r['name'] is g['name'] and r['func'] is func and r['validator'] is g['validator'] and
                     r['need_raw_packet'] is g['flags'][0] and r['need_sig_ptrs'] is g['flags'][1] for r in g['registered'])
        return {'route_remembered_once_with_handler_validator_and_flags': len(g['routes'].items) == 1 and
                all(x is y for x, y in zip(g['routes'].items[0], want)) and len(g['routes'].items[0]) == 5,
                'registered_at_once_iff_connected': And(Iff(g['face'].running, len(g['registered']) == 1), len(g['registered']) <= 1, ok_reg),
                'returns_the_function_itself': result is func}
