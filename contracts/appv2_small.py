"""Contracts for the small, decisive functions of ndn/appv2.py: verdict mapping (C05), reply closure (C04/C10)."""
import asyncio
import z3
from ndn import appv2, types
from ndn.types import ValidResult
from pyvc.zutil import *
from pyvc.contracts import Contract, contract, LoopSpec
from pyvc.run import View, Unsupported
from pyvc.values import SymObj, Opaque, ExcVal, PyExc
from contracts.assumed_aio import Fut, UserCoroutineFn, UserFn, PENDING, RESULT, EXC, CANCELLED, _M

ACCEPT = (ValidResult.PASS, ValidResult.ALLOW_BYPASS)
VERDICTS = list(ValidResult) + [None, True, False, 1, 'PASS']      # every enum value and some non-enum answers


def tok(label):
    return Opaque('token', label)


@contract
class pending_satisfy(Contract):
    fn = appv2.PendingIntEntry.satisfy
    props = ('C05', 'C03')
    doc = ('PendingIntEntry.satisfy: the payload becomes the result only if the validator answered PASS or ALLOW_BYPASS; '
           'every other answer (any value), a missing validator (FAIL) or a validator timeout/cancellation (TIMEOUT) completes '
           'the Interest with ValidationFailure carrying name, meta_info, content, sig and that verdict; an already finished '
           'Interest is left untouched; nothing is raised')

    def setup(self, cx):
        fut = Fut(cx.run, 'future')
        vk = cx.run.choose([('validator=None', True), ('validator', True)], 'validator')
        val = None
        if vk == 'validator':
            val = UserCoroutineFn('validator', VERDICTS, [TimeoutError, asyncio.CancelledError])
        cx.run.ghost['sat.validator'] = val
        self_ = SymObj(appv2.PendingIntEntry, dict(future=fut, deadline=cx.run.input_int('deadline'), can_be_prefix=False,
                                                   must_be_fresh=False, validator=val, implicit_sha256=None, task=None))
        data = (tok('name'), tok('meta_info'), tok('content'), tok('sig'), tok('raw_packet'))
        cx.run.ghost['sat.state0'] = fut.state
        return dict(self=self_, data=data)

    def post(c, cx, result, self, data):
        fut = self.d['future']
        val = cx.run.ghost['sat.validator']
        s0 = cx.run.ghost['sat.state0']
        name, meta, content, sig, raw = data
        # the verdict in force
        if val is None:
            verdict, answered = ValidResult.FAIL, False
        elif 'validator.returned' in cx.run.ghost:
            verdict, answered = cx.run.ghost['validator.returned'], True
        else:
            verdict, answered = ValidResult.TIMEOUT, False      # the validator raised TimeoutError / CancelledError
        out = {'validator_consulted_at_most_once': val is None or len(val.calls) == 1}
        if val is not None and val.calls:
            a = val.calls[0][0]
            out['validator_sees_this_packet'] = a[0] is name and a[1] is sig
        was_pending = simp(zint(s0) == PENDING)
        if was_pending is False or (fut.history == [] and was_pending is not True):
            out['finished_interest_untouched'] = fut.history == []
            return out
        if len(fut.history) != 1:
            out['completed_exactly_once'] = False
            return out
        kind, v = fut.history[0]
        accepted = any(verdict is x for x in ACCEPT)
        if accepted:
            out['accepted_gives_payload'] = kind == 'set_result' and isinstance(v, tuple) and v[0] is name and v[1] is content
        else:
            ok = kind == 'set_exception' and isinstance(v, ExcVal) and v.cls is types.ValidationFailure
            out['rejected_gives_validation_failure'] = ok
            if ok:
                out['failure_carries_packet_and_verdict'] = (v.attrs.get('name') is name and v.attrs.get('meta_info') is meta and
                                                             v.attrs.get('content') is content and v.attrs.get('sig_ptrs') is sig and
                                                             v.attrs.get('result') is verdict)
        return out


# ----------------------------------------------------------------------------- reply closure of _on_interest
class _Clock:
    """ghost clock behind ndn.utils.timestamp(): non-decreasing"""

    def __init__(self, run):
        self.run = run
        self.now = run.fresh_int('clock0')
        run.assume(self.now >= 0)
        self.reads = []

    def read(self):
        t = self.run.fresh_int('clock')
        self.run.assume(t >= self.now)
        self.now = t
        self.reads.append(t)
        return t


# ----------------------------------------------------------------------------- _on_interest (dispatch, gate, reply)
import logging
from ndn import security as sec
from ndn.encoding import ndnlp_v2 as ndnlp
from ndn.encoding.name import Name
from ndn.security.validator import digest_validator
from contracts.assumed_aio import Face, Fib, install_clock
from contracts.fields2 import is_plain_model
from spec.tlv import *


@contract
class params_sha256_checker_assumed_here(Contract):
    """call-site summary: some boolean answer (ghost `digest_ok`); the function itself is verified under C02"""
    fn = digest_validator.params_sha256_checker
    props = ()
    assumed = True

    def result(c, cx, name, sig):
        b = cx.run.input_bool('digest_ok')
        cx.run.ghost['digest_ok'] = b
        cx.run.ghost['digest_checked'] = cx.run.ghost.get('digest_checked', 0) + 1
        return b


@contract
class name_to_str_assumed(Contract):
    """used only inside log messages: returns text"""
    fn = Name.to_str
    props = ()
    assumed = True
    accepts_opaque = True          # whatever stands for a name: the text only goes into a log record

    def result(c, cx, name):
        return '<uri>'


def mk_app(cx, fib=None, face=None):
    return SymObj(appv2.NDNApp, dict(logger=logging.getLogger('ndn.appv2'), face=face or Face(cx.run), _fib=fib,
                                     _pit=None, registerer=None, _autoreg_routes=[]))


@contract
class on_interest(Contract):
    fn = appv2.NDNApp._on_interest
    props = ('C04', 'C05', 'C10', 'C06')
    doc = ('_on_interest: the only handler that can be invoked is the one stored at the longest attached prefix (assumed '
           'pygtrie contract), at most once, none when nothing matches; an Interest with ApplicationParameters or a '
           'signature reaches it only if the parameters digest is right AND a validator exists AND it answered PASS / '
           'ALLOW_BYPASS; plain Interests reach it without consulting a validator. The reply callback transmits only while '
           'now <= deadline, bare without PIT token and in a token envelope with one, and returns True iff it sent.')
    policy = {'eager_tasks': True}

    def setup(self, cx):
        run = cx.run
        install_clock(run)
        nk = run.choose([('no prefix matches', True), ('node without callback', True), ('node', True)], 'fib')
        node = None
        handler = UserFn('handler')
        if nk != 'no prefix matches':
            vk = run.choose([('validator=None', True), ('validator', True)], 'validator')
            val = UserCoroutineFn('validator', VERDICTS) if vk == 'validator' else None
            node = SymObj(appv2.PrefixTreeNode, dict(callback=handler if nk == 'node' else None, validator=val))
            run.ghost['oi.validator'] = val
        run.ghost['oi.handler'] = handler
        fib = Fib(node)
        app = mk_app(cx, fib)
        ak = run.choose([('app_param=None', True), ('app_param', True)], 'app_param')
        app_param = None if ak == 'app_param=None' else run.input_buf('app_param', 'bytes')
        sk = run.choose([('unsigned', True), ('signed', True)], 'sig')
        sig = SymObj(appv2.enc.SignaturePtrs, dict(signature_info=None if sk == 'unsigned' else tok('siginfo'),
                                                   signature_covered_part=[], signature_value_buf=None,
                                                   digest_covered_part=[], digest_value_buf=None))
        lk = run.choose([('lifetime=None', True), ('lifetime', True)], 'lifetime')
        lifetime = None
        if lk == 'lifetime':
            lifetime = run.input_int('lifetime')
            run.assume(lifetime >= 0)
        param = SymObj(appv2.enc.InterestParam, dict(can_be_prefix=False, must_be_fresh=False, nonce=None, lifetime=lifetime,
                                                     hop_limit=None, forwarding_hint=[]))
        tk = run.choose([('pit_token=None', True), ('pit_token', True)], 'token')
        token = None
        if tk == 'pit_token':
            token = run.input_buf('pit_token', 'bytes')
            run.assume(zint(token.length) < 2 ** 16)
        return dict(self=app, name=tok('name'), pit_token=token, param=param, app_param=app_param, sig=sig,
                    raw_packet=tok('raw'))

    def post(c, cx, result, self, name, pit_token, param, app_param, sig, raw_packet):
        run = cx.run
        g = run.ghost
        handler, fib = g['oi.handler'], self.d['_fib']
        node = fib.longest
        out = {'lookup_is_longest_prefix_of_the_interest_name': fib.queries == [('longest_prefix', name)]}
        sig_required = app_param is not None or sig.d['signature_info'] is not None
        val = g.get('oi.validator')
        called = len(handler.calls)
        out['handler_invoked_at_most_once'] = called <= 1
        if node is None or node.d['callback'] is None:
            out['no_attached_handler_no_delivery'] = called == 0
            return out
        if not sig_required:
            out['plain_interest_delivered'] = called == 1
            out['plain_interest_never_consults_validator'] = (val is None or val.calls == []) and g.get('digest_checked', 0) == 0
        else:
            verdict = g.get('validator.returned', None) if (val is not None and val.calls) else None
            accepted = val is not None and len(val.calls) == 1 and any(verdict is x for x in ACCEPT)
            digest_ok = g.get('digest_ok', False)
            out['digest_checked_once_before_anything'] = g.get('digest_checked', 0) == 1
            if called == 1:
                out['delivered_only_if_digest_ok'] = digest_ok
                out['delivered_only_if_validator_accepted'] = accepted
            else:
                out['dropped_only_if_not_accepted_or_bad_digest'] = Or(Not(digest_ok), not accepted)
        if called == 1:
            args = handler.calls[0][0]
            out['handler_gets_name_params_reply_context'] = (args[0] is name and args[1] is app_param and
                                                             isinstance(args[3], dict) and args[3].get('pit_token') is pit_token)
            out.update(c.check_reply(cx, self, args[2], args[3], pit_token, param))
        return out

    def check_reply(c, cx, app, reply, context, pit_token, param):
        """run the reply closure once at an arbitrary later clock reading and check the reply clause"""
        run = cx.run
        out = {}
        face = app.d['face']
        deadline = context['deadline']
        clock = run.ghost['clock']
        t_arrival = clock.reads[0] if clock.reads else None
        lt = param.d['lifetime']
        out['deadline_is_arrival_plus_lifetime'] = t_arrival is not None and Eq(deadline, t_arrival + (lt if lt is not None else appv2.DEFAULT_LIFETIME))
        data = run.input_buf('reply_data', 'bytes')
        run.assume(zint(data.length) < 2 ** 16)
        n0 = len(face.sent)
        running = face.running
        try:
            r = cx.it.call(reply, [data], {}, None)
            raised = None
        except PyExc as e:
            r, raised = None, e
        now = clock.reads[-1]
        sent = face.sent[n0:]
        in_time = simp(zint(now) <= zint(deadline))
        if raised is not None:
            out['reply_raises_only_when_face_down'] = And(raised.cls is types.NetworkError, Not(running), in_time)
            return out
        out['reply_transmits_iff_lifetime_not_elapsed'] = Iff(in_time, len(sent) == 1)
        out['reply_reports_truthfully'] = (r is True) if len(sent) == 1 else (r is False or r is None and False)
        if len(sent) == 1:
            wire, h = sent[0]
            if pit_token is None:
                out['bare_without_token'] = wire is data
            else:
                out['token_envelope'] = lp_envelope(h, wire, pit_token, data, cx)
        return out


def lp_envelope(h, wire, token, data, cx):
    """wire == 64 L (62 |t| t) (50 |d| d) with shortest-form numbers, identical token and unmodified payload bytes"""
    if not isinstance(wire, View):
        return False
    from contracts.name import bytes_equal
    tl, dl = zint(token.length), zint(data.length)
    inner = 1 + tlsize(tl) + tl + 1 + tlsize(dl) + dl
    p0 = 1 + tlsize(inner)
    p1 = p0 + 1 + tlsize(tl)
    p2 = p1 + tl
    p3 = p2 + 1 + tlsize(dl)
    return And(Eq(wire.length, 1 + tlsize(inner) + inner), wire.at(h, 0) == 0x64, tlenc_at(h, wire, 1, inner),
               wire.at(h, p0) == 0x62, tlenc_at(h, wire, p0 + 1, tl), bytes_equal(h, wire, p1, cx.old_heap, token, 0, tl),
               wire.at(h, p2) == 0x50, tlenc_at(h, wire, p2 + 1, dl), bytes_equal(h, wire, p3, h, data, 0, dl))


on_interest.post_assumed = lambda c, cx, result, **p: {}


_orig_result = on_interest.result


def _oi_result(c, cx, **p):
    cx.run.ghost.setdefault('recv.on_interest_calls', []).append(p)
    return None


on_interest.result = _oi_result


# ----------------------------------------------------------------------------- the hand-assembled PIT-token envelope (backup path)
@contract
class put_with_token_nocopy(Contract):
    fn = appv2.NDNApp._put_raw_packet_with_pit_token_nocopy
    props = ('C10',)
    doc = ('_put_raw_packet_with_pit_token_nocopy: refused with NetworkError when the face is down; otherwise exactly two buffers are '
           'handed to the face, a header 64 L (62 |t| t) 50 |d| followed by the Data itself, so that their concatenation is the same '
           'envelope the copying variant produces (L covers the token element, the fragment header and the Data)')
    raises = {types.NetworkError: lambda cx, self, data, pit_token: Not(self.d['face'].running)}
    exact_raises = True

    def setup(self, cx):
        run = cx.run
        data = run.input_buf('data', 'bytes')
        tok_ = run.input_buf('pit_token', 'bytes')
        run.assume(And(zint(data.length) < 2 ** 16, zint(tok_.length) < 2 ** 16))
        return dict(self=mk_app(cx), data=data, pit_token=tok_)

    def post(c, cx, result, self, data, pit_token):
        from contracts.name import bytes_equal
        face = self.d['face']
        out = {'two_buffers_sent': len(face.sent) == 2}
        if len(face.sent) != 2:
            return out
        (hdr, h1), (body, h2) = face.sent
        out['second_buffer_is_the_data_itself'] = body is data
        if not isinstance(hdr, View):
            out['header_is_bytes'] = False
            return out
        tl, dl = zint(pit_token.length), zint(data.length)
        inner = 1 + tlsize(tl) + tl + 1 + tlsize(dl) + dl
        p0 = 1 + tlsize(inner)
        p1 = p0 + 1 + tlsize(tl)
        p2 = p1 + tl
        out['header_layout'] = And(Eq(hdr.length, p2 + 1 + tlsize(dl)), hdr.at(h1, 0) == 0x64, tlenc_at(h1, hdr, 1, inner),
                                   hdr.at(h1, p0) == 0x62, tlenc_at(h1, hdr, p0 + 1, tl), bytes_equal(h1, hdr, p1, cx.old_heap, pit_token, 0, tl),
                                   hdr.at(h1, p2) == 0x50, tlenc_at(h1, hdr, p2 + 1, dl))
        return out
