"""Contracts that tie the shipped signers (ndn/security/signer/*.py) to the Signer interface the packet proofs assume
(contracts/fields2.py new_signer; properties C01, C02): get_signature_value_size() is the reserved size S;
write_signature_value(wire, contents) needs a buffer of exactly S bytes, returns r with 0 <= r <= S, writes only wire[0:r)
and the bytes written are the cryptographic primitive's output for the hash over EVERY block of contents, in order, once;
write_signature_info announces the signer's type and key locator.  ASSUMED: the primitives themselves (Cryptodome SHA256,
HMAC, pkcs1_15, DSS, eddsa) and the lengths of what they return."""
import z3
from Cryptodome.Hash import SHA256, HMAC
from Cryptodome.Signature import DSS, pkcs1_15, eddsa
from ndn.security.signer.sha256_digest_signer import DigestSha256Signer
from ndn.security.signer.sha256_hmac_signer import HmacSha256Signer
from ndn.security.signer.sha256_rsa_signer import Sha256WithRsaSigner
from ndn.security.signer.sha256_ecdsa_signer import Sha256WithEcdsaSigner
from ndn.security.signer.ed25519_signer import Ed25519Signer
from ndn.security.signer.null_signer import NullSigner
from ndn.encoding import SignatureType, KeyLocator
from pyvc.zutil import *
from pyvc.contracts import Contract, contract, LoopSpec
from pyvc.run import View, Unsupported
from pyvc.values import SymObj, Opaque, PyExc
from pyvc.symseq import BufSeq
from contracts.assumed_aio import _M
from contracts.digestcheck import Fed, fed_prefix
from contracts import verifiers as vf
from contracts.name import bytes_equal


def SG(it):
    return it.run.ghost.setdefault('sg', dict(outputs=[]))


def _out(it, kind, key, h, length):
    """the primitive's output: `length` fresh bytes, recorded with what it was computed from"""
    run = it.run
    n = length if isinstance(length, int) else run.fresh_int('siglen')
    if not isinstance(length, int):
        lo, hi = length
        run.assume(z3.And(n >= lo, n <= hi))
    v = run.alloc(n, 'bytes', run.fresh_row('sig'), False)
    SG(it)['outputs'].append((kind, key, h, v))
    return v


class HashS(vf.HashM):
    """SHA256.new() / HMAC.new() on the signing side: digest() is the primitive's 32-byte output"""

    def getattr_(self, it, name, node):
        if name == 'digest':
            return _M(lambda it_: _out(it_, self.kind, self.key, self, 32))
        return super().getattr_(it, name, node)


class KeyM:
    def __init__(self, run, kind):
        self.kind = kind
        self.size = run.input_int('key_size_bytes')
        run.assume(z3.And(self.size >= 1, self.size <= 1024))

    def getattr_(self, it, name, node):
        if name == 'size_in_bytes':
            return _M(lambda it_: self.size)
        raise Unsupported(f'key.{name}')


class SignerM:
    def __init__(self, kind, key, args):
        self.kind, self.key, self.args = kind, key, args

    def getattr_(self, it, name, node):
        if name == 'sign':
            def sign(it_, h):
                g = it_.run.ghost['sg.len']
                return _out(it_, self.kind, self.key, h, g[self.kind](self.key))
            return _M(sign)
        raise Unsupported(f'{self.kind} signer .{name}')


def _install():
    from pyvc import models
    R = models.REAL_FUNCTION_MODELS
    old_sha, old_hmac, old_dss, old_rsa, old_ed = R.get(SHA256.new), R.get(HMAC.new), R.get(DSS.new), R.get(pkcs1_15.new), R.get(eddsa.new)

    def wrap(old, mk):
        def m(it, a, k, n):
            if 'sg.len' in it.run.ghost:
                return mk(it, a, k, n)
            return old(it, a, k, n)
        return m
    R[SHA256.new] = wrap(old_sha, lambda it, a, k, n: HashS('sha256'))
    R[HMAC.new] = wrap(old_hmac, lambda it, a, k, n: HashS('hmac', a[0]))
    R[DSS.new] = wrap(old_dss, lambda it, a, k, n: SignerM('ecdsa', a[0], a[1:]))
    R[pkcs1_15.new] = wrap(old_rsa, lambda it, a, k, n: SignerM('rsa', a[0], a[1:]))
    R[eddsa.new] = wrap(old_ed, lambda it, a, k, n: SignerM('ed25519', a[0], a[1:]))


_install()


def _inv(it, env, g):
    k, ok = fed_prefix(env['h'], g['seq'])
    return {'exactly_the_blocks_so_far_were_hashed_in_order': And(ok, Eq(zint(k), zint(g['i'])))}


def _havoc_h(it, env, g):
    old = env['h']
    s = HashS(old.kind, old.key)
    s.blocks = [(Fed(g['seq'], it.run.fresh_int('fed')), None)]
    return s


LOOPS = {1: LoopSpec(_inv, havoc={'h': _havoc_h})}


class _Value(Contract):
    props = ('C01', 'C02')
    raises = {}
    kind = None
    hashed = True
    loops = LOOPS

    def lens(self, cx, self_):
        """signature length of each primitive for this signer: int or (lo, hi)"""
        return {}

    def mk_self(self, cx):
        raise NotImplementedError

    def setup(self, cx):
        run = cx.run
        self_, S, key = self.mk_self(cx)
        run.ghost['sg.len'] = self.lens(cx, self_)
        contents = run.input_bufseq('contents', 'memoryview')
        wire = run.input_buf('wire', 'memoryview', True)
        run.ghost['sgi'] = dict(S=S, key=key, contents=contents)
        return dict(self=self_, wire=wire, contents=contents)

    def pre(c, cx, self, wire, contents):
        return Eq(zint(wire.length), zint(cx.run.ghost['sgi']['S']))          # the caller hands over exactly the reserved size

    def post(c, cx, result, self, wire, contents):
        run = cx.run
        g = run.ghost['sgi']
        outs = SG(cx.it)['outputs']
        out = {'returns_a_length_within_the_reserved_size': And(zint(result) >= 0, zint(result) <= zint(g['S'])),
               'nothing_outside_the_signature_written': cx.frame(wire, 0, zint(result))}
        if c.kind is None:
            out['nothing_written'] = And(Eq(zint(result), 0), outs == [])
            return out
        ok = len(outs) == 1 and outs[0][0] == c.kind and outs[0][1] is g['key']
        out['primitive_used_once_with_this_signers_key'] = ok
        if ok:
            kind, key, h, v = outs[0]
            out['value_written_is_the_primitives_output'] = And(Eq(zint(result), zint(v.length)),
                                                                bytes_equal(run.heap, wire, 0, run.heap, v, 0, v.length))
            if c.hashed:
                hh = h if isinstance(h, vf.HashM) else None
                if hh is None:
                    out['hash_over_every_block'] = False
                else:
                    kk, okp = fed_prefix(hh, contents)
                    out['hash_is_over_every_block_in_order'] = And(okp, Eq(zint(kk), zint(contents.n)))
            else:
                out['message_is_the_concatenation_of_the_blocks'] = isinstance(h, vf.Joined) and h.seq is contents
        return out


@contract
class digest_value(_Value):
    fn = DigestSha256Signer.write_signature_value
    kind = 'sha256'
    doc = ('DigestSha256Signer.write_signature_value: SHA-256 over every block, in order, once; the 32 digest bytes fill the 32-byte '
           'buffer; returns 32')

    def mk_self(self, cx):
        return SymObj(DigestSha256Signer, dict(for_interest=False)), 32, None


@contract
class hmac_value(_Value):
    fn = HmacSha256Signer.write_signature_value
    kind = 'hmac'
    doc = 'HmacSha256Signer.write_signature_value: HMAC-SHA256 keyed with this signer\'s key over every block, in order; 32 bytes'

    def mk_self(self, cx):
        key = Opaque('key', 'hmac key')
        return SymObj(HmacSha256Signer, dict(key_locator_name=None, key_bytes=key)), 32, key


@contract
class rsa_value(_Value):
    fn = Sha256WithRsaSigner.write_signature_value
    kind = 'rsa'
    doc = ('Sha256WithRsaSigner.write_signature_value: PKCS#1 v1.5 signature with this signer\'s key over SHA-256 of every block, in '
           'order; it fills the buffer of key-size bytes (ASSUMED: an RSA signature is as long as the key)')

    def mk_self(self, cx):
        key = KeyM(cx.run, 'rsa')
        return SymObj(Sha256WithRsaSigner, dict(key_locator_name=None, key_der=None, key=key)), key.size, key

    def lens(self, cx, self_):
        return {'rsa': lambda key: (key.size, key.size)}


@contract
class ecdsa_value(_Value):
    fn = Sha256WithEcdsaSigner.write_signature_value
    kind = 'ecdsa'
    doc = ('Sha256WithEcdsaSigner.write_signature_value: DER ECDSA signature (fips-186-3) with this signer\'s key over SHA-256 of every '
           'block, in order; written at the start of the reserved key_size + 8 bytes, its real length returned (ASSUMED: a DER '
           'signature is at most key_size + 8 bytes long)')

    def mk_self(self, cx):
        run = cx.run
        key = Opaque('key', 'ecc key')
        ks = run.input_int('key_size')
        run.assume(z3.And(ks >= 2, ks <= 200))
        run.ghost['ecdsa.ks'] = ks
        return SymObj(Sha256WithEcdsaSigner, dict(key_locator_name=None, key_der=None, key=key, key_size=ks)), simp(ks + 8), key

    def lens(self, cx, self_):
        ks = cx.run.ghost['ecdsa.ks']
        return {'ecdsa': lambda key: (8, simp(ks + 8))}


@contract
class ed25519_value(_Value):
    fn = Ed25519Signer.write_signature_value
    kind = 'ed25519'
    hashed = False
    loops = {}
    doc = 'Ed25519Signer.write_signature_value: pure EdDSA (rfc8032) signature over the concatenation of the blocks; 64 bytes'

    def mk_self(self, cx):
        key = Opaque('key', 'ed25519 key')
        return SymObj(Ed25519Signer, dict(key_locator_name=None, key=key)), 64, key

    def lens(self, cx, self_):
        return {'ed25519': lambda key: 64}


@contract
class null_value(_Value):
    fn = NullSigner.write_signature_value
    kind = None
    loops = {}
    doc = 'NullSigner.write_signature_value: writes nothing into the empty buffer and returns 0'

    def mk_self(self, cx):
        return SymObj(NullSigner, {}), 0, None


# ----------------------------------------------------------------------------- size and info
def _size(cls_, mk, want, doc_):
    class _C(Contract):
        fn = cls_.get_signature_value_size
        props = ('C01', 'C02')
        raises = {}
        doc = doc_

        def setup(self, cx):
            s, w = mk(cx)
            cx.run.ghost['sz'] = w
            return dict(self=s)

        def post(c, cx, result, self):
            return {'reserved_size': Eq(zint(result), zint(cx.run.ghost['sz']))}
    _C.__name__ = 'size_' + cls_.__name__
    return contract(_C)


_size(DigestSha256Signer, lambda cx: (SymObj(DigestSha256Signer, {}), 32), 32, 'DigestSha256Signer reserves 32 bytes')
_size(HmacSha256Signer, lambda cx: (SymObj(HmacSha256Signer, {}), 32), 32, 'HmacSha256Signer reserves 32 bytes')
_size(Ed25519Signer, lambda cx: (SymObj(Ed25519Signer, {}), 64), 64, 'Ed25519Signer reserves 64 bytes')
_size(NullSigner, lambda cx: (SymObj(NullSigner, {}), 0), 0, 'NullSigner reserves nothing')


def _mk_rsa(cx):
    key = KeyM(cx.run, 'rsa')
    return SymObj(Sha256WithRsaSigner, dict(key=key)), key.size


def _mk_ec(cx):
    ks = cx.run.input_int('key_size')
    return SymObj(Sha256WithEcdsaSigner, dict(key_size=ks)), simp(ks + 8)


_size(Sha256WithRsaSigner, _mk_rsa, None, 'Sha256WithRsaSigner reserves the key size in bytes')
_size(Sha256WithEcdsaSigner, _mk_ec, None, 'Sha256WithEcdsaSigner reserves key_size + 8 bytes (the DER envelope)')


def _info(cls_, typ_, with_locator, doc_):
    class _C(Contract):
        fn = cls_.write_signature_info
        props = ('C01', 'C02', 'C14')
        raises = {}
        doc = doc_

        def setup(self, cx):
            loc = Opaque('token', 'key locator name')
            cx.run.ghost['info'] = loc
            d = dict(key_locator_name=loc) if with_locator else dict(for_interest=False)
            return dict(self=SymObj(cls_, d), signature_info=SymObj(object, dict(signature_type=None, key_locator='unset')))

        def post(c, cx, result, self, signature_info):
            loc = cx.run.ghost['info']
            kl = signature_info.d.get('key_locator')
            out = {'announces_its_signature_type': signature_info.d.get('signature_type') == typ_}
            if with_locator:
                out['key_locator_names_the_configured_certificate'] = isinstance(kl, SymObj) and kl.cls is KeyLocator and kl.d.get('name') is loc
            else:
                out['no_key_locator'] = kl is None
            return out
    _C.__name__ = 'info_' + cls_.__name__
    return contract(_C)


_info(DigestSha256Signer, SignatureType.DIGEST_SHA256, False, 'DigestSha256Signer.write_signature_info: type DigestSha256, no key locator')
_info(NullSigner, SignatureType.NULL, False, 'NullSigner.write_signature_info: type Null, no key locator')
_info(HmacSha256Signer, SignatureType.HMAC_WITH_SHA256, True, 'HmacSha256Signer.write_signature_info: type HMAC, key locator = configured name')
_info(Sha256WithRsaSigner, SignatureType.SHA256_WITH_RSA, True, 'Sha256WithRsaSigner.write_signature_info: type RSA, key locator = configured name')
_info(Sha256WithEcdsaSigner, SignatureType.SHA256_WITH_ECDSA, True, 'Sha256WithEcdsaSigner.write_signature_info: type ECDSA, key locator = configured name')
_info(Ed25519Signer, SignatureType.ED25519, True, 'Ed25519Signer.write_signature_info: type Ed25519, key locator = configured name')
