"""ASSUMED contracts of asyncio objects and of user-supplied callables (validators, handlers, faces).
These are models of the environment, never verified here; they are listed in evidence under assumptions.

Future (asyncio.Future): state in {PENDING, RESULT, EXC, CANCELLED}; set_result / set_exception require PENDING and
raise InvalidStateError otherwise; cancel() on a done future is a no-op returning False; done(), cancelled().
"""
import asyncio
import z3
from pyvc.zutil import *
from pyvc.run import Unsupported, PathEnd
from pyvc.values import Opaque, PyExc, CoroVal, ExcVal

PENDING, RESULT, EXC, CANCELLED = 0, 1, 2, 3


class _M:
    def __init__(self, f):
        self.f = f

    def call_(self, it, args, kwargs, node):
        return self.f(it, *args, **kwargs)


class Fut:
    """asyncio.Future with symbolic state"""

    def __init__(self, run, label='fut', state=None):
        self.label = label
        if state is None:
            state = run.fresh_int(label + '_state')
            run.assume(z3.And(state >= 0, state <= 3))
            run.inputs.append((label + '.state', 'int', state))
        self.state = state
        self.value = None          # result value or exception value
        self.history = []          # ghost: completions performed during the run

    def isinstance_(self, t):
        return t in (asyncio.Future, object)

    def truth(self, it):
        return True

    def getattr_(self, it, name, node):
        run = it.run
        if name in ('set_result', 'set_exception'):
            def f(it_, v):
                if not run.branch(zint(self.state) == PENDING, f'{self.label}.pending'):
                    raise PyExc(asyncio.InvalidStateError, ('invalid state',), getattr(node, 'lineno', None), it_.where())
                self.state = RESULT if name == 'set_result' else EXC
                self.value = v
                self.history.append((name, v))
                return None
            return _M(f)
        if name == 'cancel':
            def f(it_, *a):
                if run.branch(zint(self.state) == PENDING, f'{self.label}.pending'):
                    self.state = CANCELLED
                    self.history.append(('cancel', None))
                    return True
                return False
            return _M(f)
        if name == 'done':
            return _M(lambda it_: simp(zint(self.state) != PENDING))
        if name == 'cancelled':
            return _M(lambda it_: simp(zint(self.state) == CANCELLED))
        raise Unsupported(f'Future.{name}')


class UserCoroutineFn:
    """a user-supplied async callable (validator): returns one of `results`, or raises one of `raises`"""

    def __init__(self, label, results, raises=()):
        self.label, self.results, self.raises = label, list(results), list(raises)
        self.calls = []

    def truth(self, it):
        return True

    def call_(self, it, args, kwargs, node):
        self.calls.append((tuple(args), dict(kwargs)))

        def thunk():
            opts = [(('ret', i), True) for i in range(len(self.results))] + [(('raise', e), True) for e in self.raises]
            tag = it.run.choose(opts, f'{self.label}()')
            if tag[0] == 'raise':
                raise PyExc(tag[1], (f'raised by {self.label}',), getattr(node, 'lineno', None), it.where())
            r = self.results[tag[1]]
            it.run.ghost[f'{self.label}.returned'] = r
            return r
        return CoroVal(thunk, self.label)


class UserFn:
    """a user-supplied plain callable (Interest handler): records its calls, returns None"""

    def __init__(self, label, raises=()):
        self.label, self.calls, self.raises = label, [], list(raises)

    def truth(self, it):
        return True

    def call_(self, it, args, kwargs, node):
        self.calls.append((tuple(args), dict(kwargs)))
        return None


# ----------------------------------------------------------------------------- environment shared by the app-level contracts
class Clock:
    """ghost clock behind ndn.utils.timestamp() / time.time(): non-decreasing integer milliseconds"""

    def __init__(self, run):
        self.run = run
        self.now = run.fresh_int('clock0')
        run.assume(self.now >= 0)
        self.reads = []

    def read(self):
        t = self.run.fresh_int('clock')
        self.run.inputs.append((f'clock.read{len(self.reads)}', 'int', t))
        self.run.assume(t >= self.now)
        self.now = t
        self.reads.append(t)
        return t


def install_clock(run):
    c = Clock(run)
    run.ghost['clock'] = c
    return c


def _timestamp_model(it, args, kwargs, node):
    c = it.run.ghost.get('clock')
    if c is None:
        c = install_clock(it.run)
    return c.read()


class Face:
    """a Face: `running` flag, send() records what was handed to the transport (with the heap at that moment)"""

    def __init__(self, run, running=None):
        self.running = run.input_bool('face.running') if running is None else running
        self.sent = []
        self.run = run

    def truth(self, it):
        return True

    def getattr_(self, it, name, node):
        if name == 'running':
            return self.running
        if name == 'send':
            def f(it_, data):
                self.sent.append((data, it_.run.heap))
                return None
            return _M(f)
        raise Unsupported(f'Face.{name}')


class TrieStep:
    def __init__(self, value, falsy=False):
        self.value, self.falsy = value, falsy

    def truth(self, it):
        return not self.falsy

    def getattr_(self, it, name, node):
        if name == 'value':
            return self.value
        raise Unsupported(f'trie step .{name}')


class Fib:
    """pygtrie-backed NameTrie, ASSUMED contract of longest_prefix(name): the entry with the longest key that is a
    prefix of the query (ghost: `self.longest`), or a falsy step when no key is a prefix"""

    def __init__(self, longest):
        self.longest = longest          # None = no attached prefix matches; else the node stored at the longest one
        self.queries = []

    def getattr_(self, it, name, node):
        if name == 'longest_prefix':
            def f(it_, key):
                self.queries.append(('longest_prefix', key))
                return TrieStep(self.longest, self.longest is None)
            return _M(f)
        raise Unsupported(f'NameTrie.{name} (only the assumed contract of longest_prefix is available here)')


def install_env():
    from pyvc import models
    from ndn import utils
    models.REAL_FUNCTION_MODELS[utils.timestamp] = _timestamp_model


install_env()


# ----------------------------------------------------------------------------- asyncio entry points
class TaskObj:
    def __init__(self, label):
        self.label = label
        self.cancelled_by = []
        self.result = None
        self.exception = None
        self.awaited = 0

    def await_(self, it, node):
        """awaiting a task: its result, or the exception that ended it (eager model: the task already ran)"""
        self.awaited += 1
        it.run.ghost.setdefault('task_awaits', []).append(self)
        if self.exception is not None:
            raise PyExc(self.exception.cls, self.exception.eargs, getattr(node, 'lineno', None), it.where())
        return self.result

    def truth(self, it):
        return True

    def getattr_(self, it, name, node):
        if name == 'cancel':
            def f(it_, *a):
                self.cancelled_by.append(it_.where())
                return True
            return _M(f)
        raise Unsupported(f'Task.{name}')


def _create_task_model(it, args, kwargs, node):
    """ASSUMED: create_task(c) runs c's body later; here it is run to completion at the creation point (eager), which is
    sound for properties of c's own effects over captured immutable locals. An exception ending the task is recorded as
    an unhandled background-task error (ghost), it does not propagate to the creator."""
    coro = args[0]
    t = TaskObj(getattr(coro, 'label', 'task'))
    try:
        t.result = it.await_value(coro, node)
    except PyExc as e:
        t.exception = e
        it.run.ghost.setdefault('task_exceptions', []).append(e)
    it.run.ghost.setdefault('tasks', []).append(t)
    return t


def install_aio():
    from pyvc import models
    models.REAL_FUNCTION_MODELS[asyncio.create_task] = _create_task_model
    models.BUILTIN_MODELS[asyncio.create_task] = _create_task_model


install_aio()
