"""Contracts for ndn/security/keychain/keychain_sqlite3.py (property C15): get_signer argument resolution and signer
cache, and the transaction discipline of the multi-step writes (del_key, del_cert, new_key, import_cert, touch_identity).

The database connection, SQL semantics (queries, triggers), the TPM back-end and self_sign are ASSUMED interfaces: a
ghost connection that records statements and can fail at every step with any exception class, name tokens instead of
encoded names, and provenance-carrying Identity / Key / Certificate values for the read queries."""
import sqlite3
from ndn.security.keychain import keychain_sqlite3 as ks
from ndn.encoding.name import Name
from ndn.security.signer.sha256_digest_signer import DigestSha256Signer
from ndn.app_support import security_v2
from pyvc.zutil import *
from pyvc.contracts import Contract, contract
from pyvc.run import Unsupported
from pyvc.values import SymObj, Opaque, PyExc
from contracts.assumed_aio import _M

FAULTS = (sqlite3.OperationalError, KeyboardInterrupt, OSError)


class NameVal:
    """a name value: identity (base, drop) = `base` without its last `drop` components; form = given|formal|bytes"""
    opaque_value = True          # stands for an unknown value of a library type: foreign contracts do not know it

    def __init__(self, base, drop=0, form='given', owner=None):
        self.base, self.drop, self.form, self.owner = base, drop, form, owner

    @property
    def ident(self):
        return (self.base, self.drop)

    def __repr__(self):
        return f'<name {self.base}{"[:-%d]" % self.drop if self.drop else ""} {self.form}>'

    def __hash__(self):
        return hash((self.base, self.drop, self.form))

    def __eq__(self, other):
        return isinstance(other, NameVal) and (self.base, self.drop, self.form) == (other.base, other.drop, other.form)

    def truth(self, it):
        return True          # a non-empty name (keys, certificates and identities used here have components)

    def isinstance_(self, t):
        return False         # neither Identity / Key / Certificate nor str

    def getslice(self, it, lo, hi, node):
        if self.form != 'formal':
            raise Unsupported('slice of a name that was not normalised')
        if lo is None and isinstance(hi, int) and hi < 0:
            return NameVal(self.base, self.drop - hi, 'formal')
        raise Unsupported('name slice other than [:-k]')

    def compare(self, it, op, other, node):
        import ast
        r = isinstance(other, NameVal) and self.ident == other.ident
        return r if isinstance(op, ast.Eq) else not r


def _is_name(v):
    return isinstance(v, NameVal)


@contract
class to_bytes_tok(Contract):
    fn = Name.to_bytes
    assumed = True

    def use_contract_at(c, it, args, kwargs):
        return _is_name(args[0])

    def result(c, cx, name):
        return NameVal(name.base, name.drop, 'bytes')


@contract
class normalize_tok(Contract):
    fn = Name.normalize
    assumed = True

    def use_contract_at(c, it, args, kwargs):
        return _is_name(args[0])

    def result(c, cx, name):
        return NameVal(name.base, name.drop, 'formal')


@contract
class to_str_tok(Contract):
    fn = Name.to_str
    assumed = True

    def use_contract_at(c, it, args, kwargs):
        return _is_name(args[0])

    def result(c, cx, name):
        return '<uri>'


# ----------------------------------------------------------------------------- ghost database / tpm
class World:
    def __init__(self, run, faults=True):
        self.run, self.faults = run, faults
        self.log = []                 # ('execute', sql, params) | ('commit',) | ('rollback',) | ('tpm.delete', name) ...
        self.dirty = 0                # write statements since the last commit / rollback
        self.tpm_signers = []         # (key name, locator, signer)
        self.tpm_deleted = []
        self.generated = []
        self.n = 0

    def maybe_fail(self, it, what, node, classes=FAULTS):
        if not self.faults:
            return
        tag = self.run.choose([('ok', True)] + [(e, True) for e in classes], what)
        if tag != 'ok':
            self.log.append(('fault', what, tag))
            raise PyExc(tag, (f'injected at {what}',), getattr(node, 'lineno', None), it.where())

    def fresh(self, label):
        self.n += 1
        return f'{label}#{self.n}'


class Conn:
    def __init__(self, w):
        self.w = w

    def getattr_(self, it, name, node):
        w = self.w
        if name == 'execute':
            def execute(it_, sql, params=()):
                w.maybe_fail(it_, f'execute[{len(w.log)}]', node, FAULTS[:2])
                w.log.append(('execute', sql, tuple(params)))
                if sql.split()[0].upper() in ('INSERT', 'DELETE', 'UPDATE'):
                    w.dirty += 1
                return Opaque('cursor', 'cursor')
            return _M(execute)
        if name == 'commit':
            def commit(it_):
                w.maybe_fail(it_, f'commit[{len(w.log)}]', node, FAULTS[:2])
                w.log.append(('commit',))
                w.dirty = 0
            return _M(commit)
        if name == 'rollback':
            def rollback(it_):
                w.log.append(('rollback',))
                w.dirty = 0
            return _M(rollback)
        raise Unsupported(f'conn.{name}')


class Tpm:
    def __init__(self, w):
        self.w = w

    def getattr_(self, it, name, node):
        w = self.w
        if name == 'get_signer':
            def get_signer(it_, key_name, locator=None):
                w.maybe_fail(it_, f'tpm.get_signer[{len(w.log)}]', node, (KeyError, ValueError))
                s = Opaque('signer', w.fresh('signer'))
                w.tpm_signers.append((key_name, locator, s))
                w.log.append(('tpm.get_signer', key_name, locator))
                return s
            return _M(get_signer)
        if name == 'delete_key':
            def delete_key(it_, key_name):
                w.maybe_fail(it_, f'tpm.delete_key[{len(w.log)}]', node, (OSError,))
                w.tpm_deleted.append(key_name)
                w.log.append(('tpm.delete_key', key_name))
            return _M(delete_key)
        if name == 'generate_key':
            def generate_key(it_, id_name, key_type='ec', **kw):
                w.maybe_fail(it_, f'tpm.generate_key[{len(w.log)}]', node, (ValueError, OSError))
                k = NameVal(w.fresh('generated key'), 0, 'formal')
                w.generated.append(k)
                w.log.append(('tpm.generate_key', id_name))
                return (k, Opaque('token', 'public key'))
            return _M(generate_key)
        raise Unsupported(f'tpm.{name}')


def world(cx):
    return cx.run.ghost['kc.world']


def mk_keychain(cx, faults=True, cache=None):
    w = World(cx.run, faults)
    cx.run.ghost['kc.world'] = w
    return SymObj(ks.KeychainSqlite3, dict(conn=Conn(w), tpm=Tpm(w), _signer_cache={} if cache is None else cache))


# ----------------------------------------------------------------------------- assumed read queries (SQL behind them)
def _read(fn_, maker, raises_keyerror=True):
    class _C(Contract):
        fn = fn_
        assumed = True
        raises = {KeyError: (lambda cx, **p: True)} if raises_keyerror else {}

        def use_contract_at(c, it, args, kwargs):
            return isinstance(args[0], SymObj) and 'kc.world' in it.run.ghost

        def result(c, cx, **p):
            return maker(cx, **p)
    _C.__name__ = 'read_' + fn_.__qualname__.replace('.', '_')
    return contract(_C)


def _identity(cx, prov, name=None):
    w = world(cx)
    o = SymObj(ks.Identity, dict(pib=None, row_id=w.fresh('id row'), is_default=False))
    o.d['_name'] = NameVal(w.fresh('identity name'), 0, 'formal', owner=o) if name is None else name
    o.prov = prov
    return o


def _key(cx, prov, name=None):
    w = world(cx)
    o = SymObj(ks.Key, dict(pib=None, row_id=w.fresh('key row'), is_default=False, _identity=None, _key_bits=None))
    o.d['_name'] = NameVal(w.fresh('key name'), 0, 'formal', owner=o) if name is None else name
    o.prov = prov
    return o


def _cert(cx, prov):
    w = world(cx)
    o = SymObj(ks.Certificate, dict(id=w.fresh('cert row'), _key=None, _data=None, is_default=True))
    o.d['_name'] = NameVal(w.fresh('certificate name'), 0, 'bytes', owner=o)
    o.prov = prov
    return o


_read(ks.KeychainSqlite3.__getitem__, lambda cx, self, name: _identity(cx, ('identity_of', name)))
_read(ks.KeychainSqlite3.default_identity, lambda cx, self: _identity(cx, ('default_identity',)))
def _contains(cx, self, key):
    name = key
    w = world(cx)
    ident = getattr(name, 'ident', name)
    pending = False
    for x in w.log:
        if x[0] == 'execute' and x[1].startswith('INSERT INTO identities') and getattr(x[2][0], 'ident', None) == ident:
            pending = True
        elif x[0] == 'rollback':
            pending = False
    if pending:
        return True            # the row inserted by this very operation is visible to it
    return cx.run.ghost.setdefault('kc.contains', {}).setdefault(ident, cx.run.fresh_bool('identity_exists'))


_read(ks.KeychainSqlite3.__contains__, _contains, raises_keyerror=False)
_read(ks.KeychainSqlite3.has_default_identity, lambda cx, self: cx.run.fresh_bool('has_default_identity'), raises_keyerror=False)
_read(ks.Identity.__getitem__, lambda cx, self, name: _key(cx, ('key_of', self, name)))
_read(ks.Identity.default_key, lambda cx, self: _key(cx, ('default_key', self)))
_read(ks.Identity.has_default_key, lambda cx, self: cx.run.fresh_bool('has_default_key'), raises_keyerror=False)
_read(ks.Key.default_cert, lambda cx, self: _cert(cx, ('default_cert', self)))


def _setter(fn_):
    class _C(Contract):
        fn = fn_
        assumed = True

        def use_contract_at(c, it, args, kwargs):
            return isinstance(args[0], SymObj) and 'kc.world' in it.run.ghost

        def result(c, cx, **p):
            w = world(cx)
            w.log.append(('set_default', fn_.__qualname__))
            return None
    _C.__name__ = 'set_' + fn_.__qualname__.replace('.', '_')
    return contract(_C)


_setter(ks.KeychainSqlite3.set_default_identity)
_setter(ks.Identity.set_default_key)


@contract
class self_sign_assumed(Contract):
    fn = security_v2.self_sign
    assumed = True
    raises = {ValueError: lambda cx, **p: True}

    def use_contract_at(c, it, args, kwargs):
        return 'kc.world' in it.run.ghost

    def result(c, cx, **p):
        w = world(cx)
        return (NameVal(w.fresh('self-signed certificate name'), 0, 'formal'), Opaque('cert_data', 'certificate wire'))


def _install():
    from pyvc import models
    old = models.BUILTIN_MODELS[bytes]

    def m_bytes(it, args, kwargs, node):
        if args and isinstance(args[0], Opaque) and args[0].typ == 'cert_data':
            return args[0]
        return old(it, args, kwargs, node)
    models.BUILTIN_MODELS[bytes] = m_bytes


_install()


# ----------------------------------------------------------------------------- get_signer
@contract
class get_signer(Contract):
    fn = ks.KeychainSqlite3.get_signer
    props = ('C15',)
    doc = ('get_signer(sign_args), for every combination of arguments: no_signature -> None, digest_sha256 -> a digest signer; '
           'otherwise the key is the one selected by cert > key > identity > default identity (objects or names), the key locator is '
           'the explicit key_locator when given and else the selected / default certificate of THAT key, and the signer returned is the '
           'TPM signer for exactly this (key, locator) pair: taken from the cache only under this pair, created at most once and '
           'stored under this pair')
    raises = {KeyError: lambda cx, **p: True, ValueError: lambda cx, **p: True}

    def setup(self, cx):
        run = cx.run
        args = {}
        for flag in ('no_signature', 'digest_sha256'):
            k = run.choose([('absent', True), (False, True), (True, True)], flag)
            if k != 'absent':
                args[flag] = k
        cache = {}
        self_ = mk_keychain(cx, faults=False, cache=cache)
        ck = run.choose([('absent', True), ('name', True), ('object', True)], 'cert')
        if ck == 'name':
            args['cert'] = NameVal('cert arg')
        elif ck == 'object':
            args['cert'] = _cert(cx, ('given',))
        kk = run.choose([('absent', True), ('name', True), ('object', True)], 'key')
        if kk == 'name':
            args['key'] = NameVal('key arg')
        elif kk == 'object':
            args['key'] = _key(cx, ('given',))
        ik = run.choose([('absent', True), ('name', True), ('object', True)], 'identity')
        if ik == 'name':
            args['identity'] = NameVal('identity arg')
        elif ik == 'object':
            args['identity'] = _identity(cx, ('given',))
        lk = run.choose([('absent', True), ('name', True), ('empty', True)], 'key_locator')
        if lk == 'name':
            args['key_locator'] = NameVal('locator arg')
        elif lk == 'empty':
            args['key_locator'] = []
        run.ghost['gs'] = dict(cache=cache)
        return dict(self=self_, sign_args=args)

    def post(c, cx, result, self, sign_args):
        w = world(cx)
        g = cx.run.ghost['gs']
        out = {}
        if sign_args.get('no_signature', False):
            out['no_signature_gives_none'] = result is None and w.tpm_signers == []
            return out
        if sign_args.get('digest_sha256', False):
            out['digest_signer'] = isinstance(result, SymObj) and result.cls is DigestSha256Signer and w.tpm_signers == []
            return out
        out['one_tpm_signer_created_and_returned'] = len(w.tpm_signers) == 1 and result is w.tpm_signers[0][2]
        if len(w.tpm_signers) != 1:
            return out
        key_name, loc, signer = w.tpm_signers[0]
        cert, key, idn, kl = (sign_args.get(k) for k in ('cert', 'key', 'identity', 'key_locator'))

        def owner_chain(nameval):
            """provenance of a name produced by the read queries: list of query tags from the value back to an argument"""
            o = getattr(nameval, 'owner', None)
            tags = []
            while o is not None:
                tags.append(o.prov[0])
                if o.prov[0] in ('default_cert', 'default_key', 'key_of'):
                    o = o.prov[1]
                elif o.prov[0] == 'identity_of':
                    tags.append(o.prov[1].ident if isinstance(o.prov[1], NameVal) else o.prov[1])
                    o = None
                else:
                    o = None
            return tags

        # ---- the key
        if cert is not None:
            cn = cert.d['_name'] if isinstance(cert, SymObj) else cert
            out['key_is_the_certificates_key'] = isinstance(key_name, NameVal) and key_name.ident == (cn.base, cn.drop + 2)
            sel_loc_ok = isinstance(loc, NameVal) and loc.ident == cn.ident
            sel_key = None
        elif key is not None:
            kn = key.d['_name'] if isinstance(key, SymObj) else key
            out['key_is_the_given_key'] = isinstance(key_name, NameVal) and key_name.ident == kn.ident
            ch = owner_chain(loc)
            if isinstance(key, SymObj):
                sel_loc_ok = ch[:2] == ['default_cert', 'given'] and loc.owner.prov[1] is key
            else:
                # default certificate of self[key[:-2]][key]
                sel_loc_ok = ch == ['default_cert', 'key_of', 'identity_of', (key.base, key.drop + 2)] and \
                    isinstance(loc.owner.prov[1].prov[2], NameVal) and loc.owner.prov[1].prov[2].ident == key.ident
        else:
            kch = owner_chain(key_name)
            if idn is None:
                want = ['default_key', 'default_identity']
            elif isinstance(idn, SymObj):
                want = ['default_key', 'given']
            else:
                want = ['default_key', 'identity_of', idn.ident]
            out['key_is_default_key_of_selected_identity'] = kch == want and \
                (not isinstance(idn, SymObj) or key_name.owner.prov[1] is idn)
            sel_loc_ok = owner_chain(loc)[:1] == ['default_cert'] and getattr(loc, 'owner', None) is not None and \
                loc.owner.prov[1] is getattr(key_name, 'owner', None)
        # ---- the key locator
        if isinstance(kl, NameVal):
            out['explicit_key_locator_used'] = loc is kl
        else:
            out['locator_is_the_selected_or_default_certificate_of_that_key'] = sel_loc_ok
        # ---- the cache
        ck = (NameVal(key_name.base, key_name.drop, 'bytes'), NameVal(loc.base, loc.drop, 'bytes')) \
            if isinstance(key_name, NameVal) and isinstance(loc, NameVal) else None
        cache = self.d['_signer_cache']
        out['stored_under_this_key_and_locator_only'] = ck is not None and cache == {ck: signer}
        return out


@contract
class get_signer_cached(Contract):
    """second half of the cache clause: a signer cached under exactly (key, locator) is returned without asking the TPM, one cached
    under any other pair is never returned"""
    fn = ks.KeychainSqlite3.get_signer
    props = ('C15',)
    doc = ('get_signer with a populated cache (cert given by name): the cached signer is returned iff it was stored under exactly '
           'this key and this key locator; entries for the same key with another locator, or another key with the same locator, '
           'are not used')
    raises = {KeyError: lambda cx, **p: True, ValueError: lambda cx, **p: True}

    def __init__(self):
        super().__init__()
        self.name += '[cache]'

    def setup(self, cx):
        run = cx.run
        cert = NameVal('cert arg')
        kl = run.choose([('absent', True), ('name', True)], 'key_locator')
        loc = NameVal('locator arg') if kl == 'name' else cert
        key_b = NameVal('cert arg', 2, 'bytes')
        loc_b = NameVal(loc.base, loc.drop, 'bytes')
        other_b = NameVal('another name', 0, 'bytes')
        hit, decoy1, decoy2 = Opaque('signer', 'cached for this pair'), Opaque('signer', 'same key, other locator'), \
            Opaque('signer', 'other key, same locator')
        which = run.choose([('pair cached', True), ('only decoys cached', True)], 'cache')
        cache = {(key_b, other_b): decoy1, (other_b, loc_b): decoy2}
        if which == 'pair cached':
            cache[(key_b, loc_b)] = hit
        self_ = mk_keychain(cx, faults=False, cache=cache)
        args = {'cert': cert}
        if kl == 'name':
            args['key_locator'] = loc
        run.ghost['gsc'] = dict(which=which, hit=hit, decoys=(decoy1, decoy2))
        return dict(self=self_, sign_args=args)

    def post(c, cx, result, self, sign_args):
        w = world(cx)
        g = cx.run.ghost['gsc']
        if g['which'] == 'pair cached':
            return {'cached_signer_of_this_pair_reused': result is g['hit'] and w.tpm_signers == []}
        return {'decoys_never_returned': result is not g['decoys'][0] and result is not g['decoys'][1] and
                len(w.tpm_signers) == 1 and result is w.tpm_signers[0][2]}


# ----------------------------------------------------------------------------- transaction discipline of the writes
def tx_clauses(w, failed):
    """after the operation: nothing is left uncommitted; a failure was rolled back"""
    out = {'no_uncommitted_write_left_behind': w.dirty == 0}
    if failed and any(x[0] == 'execute' and x[1].split()[0].upper() in ('INSERT', 'DELETE', 'UPDATE') for x in w.log):
        # some write statement ran before the failure
        last_write = max(i for i, x in enumerate(w.log) if x[0] == 'execute' and x[1].split()[0].upper() in ('INSERT', 'DELETE', 'UPDATE'))
        closed = [i for i, x in enumerate(w.log) if x[0] in ('commit', 'rollback') and i > last_write]
        out['failed_write_rolled_back_or_committed'] = bool(closed)
    return out


class _Write(Contract):
    props = ('C15',)
    raises = {**{e: (lambda cx, **p: True) for e in FAULTS}, KeyError: lambda cx, **p: True, ValueError: lambda cx, **p: True}

    def xpost(c, cx, exc, **p):
        return tx_clauses(world(cx), True)


@contract
class del_key(_Write):
    fn = ks.KeychainSqlite3.del_key
    doc = ('del_key, with a failure of any class injected at every step: the signer cache is emptied before anything is deleted; the '
           'key row, its certificates and the private key are removed in one transaction (private key before the commit); any '
           'failure rolls the transaction back and is re-raised, so nothing half-deleted is committed')

    def setup(self, cx):
        pre = {('k', 'l'): Opaque('signer', 'stale')}
        return dict(self=mk_keychain(cx, cache=pre), name=NameVal('key arg'))

    def _common(c, cx, self, name):
        w = world(cx)
        wrote = any(x[0] in ('execute', 'tpm.delete_key') for x in w.log)
        return {'cache_emptied_before_any_deletion': (not wrote) or self.d['_signer_cache'] == {}}

    def post(c, cx, result, self, name):
        w = world(cx)
        out = tx_clauses(w, False)
        out.update(c._common(cx, self, name))
        ops = [x for x in w.log if x[0] in ('execute', 'commit', 'tpm.delete_key', 'rollback')]
        sqls = [x[1] for x in ops if x[0] == 'execute']
        out['certificates_and_key_rows_deleted'] = any('DELETE FROM certificates' in s for s in sqls) and any('DELETE FROM keys' in s for s in sqls)
        out['private_key_deleted_before_commit'] = [x[0] for x in ops[-2:]] == ['tpm.delete_key', 'commit'] and \
            isinstance(w.tpm_deleted[0], NameVal) and w.tpm_deleted[0].ident == name.ident
        out['key_row_addressed_by_the_given_name'] = any(x[0] == 'execute' and 'DELETE FROM keys' in x[1] and len(x[2]) == 1 and
                                                         isinstance(x[2][0], NameVal) and x[2][0].ident == name.ident for x in ops)
        out['signer_cache_empty'] = self.d['_signer_cache'] == {}
        return out

    def xpost(c, cx, exc, self, name):
        out = tx_clauses(world(cx), True)
        out.update(c._common(cx, self, name))
        w = world(cx)
        out['nothing_committed_on_failure'] = ('commit',) not in w.log
        return out


@contract
class del_cert(_Write):
    fn = ks.KeychainSqlite3.del_cert
    doc = ('del_cert (no fault injected here): the certificate row is deleted and committed and the signer cache is emptied, so no '
           'cached signer keeps naming the deleted certificate')

    def setup(self, cx):
        pre = {('k', 'l'): Opaque('signer', 'stale')}
        return dict(self=mk_keychain(cx, faults=False, cache=pre), name=NameVal('cert arg'))

    def post(c, cx, result, self, name):
        w = world(cx)
        out = tx_clauses(w, False)
        out['signer_cache_empty'] = self.d['_signer_cache'] == {}
        out['certificate_row_deleted'] = any(x[0] == 'execute' and 'DELETE FROM certificates' in x[1] and x[2][0].ident == name.ident
                                             for x in w.log)
        return out


@contract
class import_cert(_Write):
    fn = ks.KeychainSqlite3.import_cert
    doc = 'import_cert, failure of any class at every step: the insert is committed, or rolled back and the failure re-raised'

    def setup(self, cx):
        return dict(self=mk_keychain(cx), key_name=NameVal('key arg'), cert_name=NameVal('cert arg'),
                    cert_data=Opaque('cert_data', 'certificate wire'))

    def post(c, cx, result, self, key_name, cert_name, cert_data):
        w = world(cx)
        out = tx_clauses(w, False)
        out['inserted_and_committed'] = [x[0] for x in w.log] == ['execute', 'commit'] and w.log[0][2][0].ident == key_name.ident and \
            w.log[0][2][1].ident == cert_name.ident and w.log[0][2][2] is cert_data
        return out


@contract
class new_key(_Write):
    fn = ks.KeychainSqlite3.new_key
    doc = ('new_key, failure of any class at every step: key row + self-signed certificate are committed together; after a failure '
           'past key generation the transaction is rolled back AND the generated private key is deleted again before the failure is '
           're-raised, so neither a half-written key nor an orphan private key survives')

    def setup(self, cx):
        return dict(self=mk_keychain(cx), id_name=NameVal('identity arg'))

    def post(c, cx, result, self, id_name):
        w = world(cx)
        out = tx_clauses(w, False)
        names = [x[0] for x in w.log if x[0] in ('execute', 'commit', 'rollback')]
        out['key_and_certificate_committed_together'] = names[:3] == ['execute', 'execute', 'commit'] and w.tpm_deleted == []
        return out

    def xpost(c, cx, exc, self, id_name):
        w = world(cx)
        out = tx_clauses(w, True)
        if w.generated and ('commit',) not in w.log:
            # a private key exists but its rows were not committed
            deleted = [d for d in w.tpm_deleted if isinstance(d, NameVal) and d.ident == w.generated[0].ident]
            tpm_delete_failed = any(x[0] == 'fault' and x[1].startswith('tpm.delete_key') for x in w.log)
            out['orphan_private_key_removed'] = bool(deleted) or tpm_delete_failed
            out['rolled_back'] = ('rollback',) in w.log
        return out


@contract
class touch_identity(_Write):
    fn = ks.KeychainSqlite3.touch_identity
    doc = ('touch_identity, failure of any class at every step: a new identity row is committed only together with its first key '
           '(by new_key); if anything fails in between, the pending identity row is rolled back and the failure re-raised')

    def setup(self, cx):
        return dict(self=mk_keychain(cx), id_name=NameVal('identity arg'))

    def post(c, cx, result, self, id_name):
        return tx_clauses(world(cx), False)


# ----------------------------------------------------------------------------- del_identity (loop over the keys of the identity)
import z3                                                               # noqa: E402
from pyvc.contracts import LoopSpec                                     # noqa: E402
NKEYS = z3.Int('N_KEYS_OF_IDENTITY')
BOOLARR_ = z3.ArraySort(INT, z3.BoolSort())


class KeyNames:
    """iteration over an Identity: its key names, any number"""

    def __init__(self, owner):
        self.owner = owner

    def seq_len(self):
        return NKEYS

    def elem(self, it, i):
        return NameVal(('key of', id(self.owner), str(simp(zint(i)))), 0, 'formal', owner=None)

    def iterate(self, it, node):
        raise Unsupported('iteration over the keys of an identity needs a loop specification')


@contract
class identity_iter(Contract):
    fn = ks.Identity.__iter__
    assumed = True

    def use_contract_at(c, it, args, kwargs):
        return isinstance(args[0], SymObj) and 'di' in it.run.ghost

    def result(c, cx, self):
        s = KeyNames(self)
        cx.run.ghost['di']['seq'] = s
        return s


@contract
class del_key_summary(Contract):
    """call-site summary of del_key inside del_identity (its own contract is above): deletes that key or fails"""
    fn = ks.KeychainSqlite3.del_key
    assumed = True
    raises = {**{e: (lambda cx, **p: True) for e in FAULTS}, KeyError: lambda cx, **p: True}

    def use_contract_at(c, it, args, kwargs):
        return 'di' in it.run.ghost

    def result(c, cx, self, name):
        g = cx.run.ghost['di']
        i = g['cur_index'](cx.it)
        if cx.run.branch(z3.Select(g['deleted'], i), 'key.deleted_twice'):
            g['double'] = True
        g['deleted'] = z3.Store(g['deleted'], i, z3.BoolVal(True))
        g['names'].append(name)
        return None


def _di_inv(it, env, g):
    d = it.run.ghost['di']
    a = z3.Int('a!di')
    w = world(type('cx', (), {'run': it.run})())
    return {'exactly_the_keys_so_far_are_deleted_once': And(z3.ForAll([a], z3.Select(d['deleted'], a) == z3.And(a >= 0, a < zint(g['i']))),
                                                           d['double'] is False),
            'identity_row_not_touched_yet': not any(x[0] == 'execute' for x in w.log)}


def _di_havoc(it, env, g):
    d = it.run.ghost['di']
    d['deleted'] = z3.Const(it.run.fresh_name('deleted'), BOOLARR_)
    d['names'].clear()
    return env['self']


@contract
class del_identity(_Write):
    fn = ks.KeychainSqlite3.del_identity
    doc = ('del_identity, ANY number of keys, a failure of any class injected at every step: the signer cache is emptied first; every '
           'key of the identity is deleted (del_key) exactly once, in order, before the identity row is touched; then the row is '
           'deleted and committed, or rolled back and the failure re-raised; a failing del_key stops the operation with the identity '
           'still listed, so it can be repeated')
    loops = {1: LoopSpec(_di_inv, havoc={'self': _di_havoc})}

    def setup(self, cx):
        run = cx.run
        run.assume(NKEYS >= 0)
        pre = {('k', 'l'): Opaque('signer', 'stale')}
        kc = mk_keychain(cx, cache=pre)
        run.ghost['di'] = dict(deleted=z3.K(INT, z3.BoolVal(False)), double=False, names=[], seq=None,
                               cur_index=lambda it: zint(it.top_locals['__active_loop_ghosts__'][1]['i']))
        return dict(self=kc, name=NameVal('identity arg'))

    def post(c, cx, result, self, name):
        w = world(cx)
        d = cx.run.ghost['di']
        a = z3.Int('a!dp')
        out = tx_clauses(w, False)
        out['signer_cache_empty'] = self.d['_signer_cache'] == {}
        out['every_key_deleted_exactly_once'] = And(z3.ForAll([a], z3.Select(d['deleted'], a) == z3.And(a >= 0, a < NKEYS)), d['double'] is False)
        ops = [x for x in w.log if x[0] in ('execute', 'commit', 'rollback')]
        out['identity_row_deleted_and_committed'] = [x[0] for x in ops] == ['execute', 'commit'] and 'DELETE FROM identities' in ops[0][1] and \
            ops[0][2][0].ident == name.ident
        return out

    def xpost(c, cx, exc, self, name):
        w = world(cx)
        out = tx_clauses(w, True)
        out['signer_cache_emptied_before_anything_is_deleted'] = self.d['_signer_cache'] == {} or \
            (not any(x[0] == 'execute' for x in w.log) and cx.run.ghost['di']['names'] == [] and cx.run.ghost['di']['seq'] is None)
        out['nothing_committed_on_failure'] = ('commit',) not in w.log
        return out


# ----------------------------------------------------------------------------- the Mapping views: every query is scoped to its owner
class QCursor:
    def __init__(self, q, ncols):
        self.q, self.ncols = q, ncols
        self.fetched = 0

    def getattr_(self, it, name, node):
        if name == 'fetchone':
            def fetchone(it_):
                self.fetched += 1
                # ASSUMED SQL fact: an aggregate query (count(*)) returns exactly one row
                aggregate = 'count(' in self.q['sql'].lower()
                k = 'row' if aggregate else it_.run.choose([('row', True), ('no row', True)], 'fetchone')
                if k == 'no row':
                    self.q['rows'].append(None)
                    return None
                row = tuple(Col('col', f'row{len(self.q["rows"])}.col{j}') for j in range(self.ncols))
                self.q['rows'].append(row)
                return row
            return _M(fetchone)
        if name == 'close':
            def close(it_):
                self.q['closed'] = self.q.get('closed', 0) + 1
            return _M(close)
        raise Unsupported(f'cursor.{name}')


class QConn:
    def __init__(self):
        self.queries = []

    def getattr_(self, it, name, node):
        if name == 'execute':
            def execute(it_, sql, params=()):
                if not sql.lstrip().upper().startswith('SELECT'):
                    raise Unsupported('a view executed a write statement')
                cols = sql[len('SELECT'):sql.upper().index(' FROM ')].split(',')
                q = dict(sql=sql, params=tuple(params), rows=[])
                self.queries.append(q)
                return QCursor(q, len(cols))
            return _M(execute)
        raise Unsupported(f'conn.{name}')


@contract
class from_bytes_col(Contract):
    fn = Name.from_bytes
    assumed = True

    def use_contract_at(c, it, args, kwargs):
        return isinstance(args[0], Opaque) and args[0].typ == 'col'

    def result(c, cx, buf):
        return NameVal(('decoded', buf.label), 0, 'formal')


class Col(Opaque):
    """a column value of a result row; `col != 0` (the is_default flag) is some boolean"""

    def compare(self, it, op, other, node):
        import ast
        if isinstance(other, int) and other == 0:
            b = it.run.fresh_bool('flag_nonzero')
            return b if isinstance(op, ast.NotEq) else Not(b)
        raise Unsupported('comparison of a column value')


def _view(fn_, owner_cls, kind, doc_):
    """kind: 'len' | 'get' | 'has_default' | 'default'"""
    class _C(Contract):
        fn = fn_
        props = ('C15',)
        doc = doc_
        raises = {KeyError: lambda cx, **p: True, TypeError: lambda cx, **p: True} if kind in ('get', 'default') else {}

        def setup(self, cx):
            conn = QConn()
            rid = Opaque('row_id', 'owner row id')
            oname = NameVal('owner name', 0, 'formal')
            pib = SymObj(ks.KeychainSqlite3, dict(conn=conn))
            d = dict(pib=pib, row_id=rid, _name=oname, is_default=False)
            if owner_cls is ks.Key:
                d.update(_identity=NameVal('identity of the key', 0, 'formal'), _key_bits=None)
            cx.run.ghost['vw'] = dict(conn=conn, rid=rid, oname=oname)
            p = dict(self=SymObj(owner_cls, d))
            if kind == 'get':
                p['name'] = NameVal('requested name')
            return p

        def _scoped(c, cx):
            g = cx.run.ghost['vw']
            qs = g['conn'].queries
            ok = len(qs) == 1
            out = {'exactly_one_query': ok}
            if ok:
                out['query_is_scoped_to_the_owner'] = len(qs[0]['params']) >= 1 and qs[0]['params'][-1] is g['rid']
            return out, (qs[0] if ok else None)

        def post(c, cx, result, **p):
            g = cx.run.ghost['vw']
            out, q = c._scoped(cx)
            if q is None:
                return out
            rows = q['rows']
            if kind == 'len':
                out['length_is_the_count_of_the_owners_rows'] = len(rows) == 1 and rows[0] is not None and result is rows[0][0]
            elif kind == 'has_default':
                out['answer_is_whether_a_default_row_of_the_owner_exists'] = len(rows) == 1 and result is (rows[0] is not None)
            else:
                out['found_row_returned'] = len(rows) == 1 and rows[0] is not None and isinstance(result, SymObj)
                if kind == 'get':
                    out['looked_up_by_the_requested_name'] = len(q['params']) == 2 and isinstance(q['params'][0], NameVal) and \
                        q['params'][0].ident == p['name'].ident and q['params'][0].form == 'bytes'
                if isinstance(result, SymObj) and rows and rows[0] is not None:
                    row = rows[0]
                    if owner_cls is ks.Identity:
                        out['key_belongs_to_this_identity'] = result.cls is ks.Key and result.d.get('_identity') is g['oname'] and \
                            result.d.get('row_id') is row[0] and result.d.get('_key_bits') is row[2]
                    else:
                        out['certificate_belongs_to_this_key'] = result.cls is ks.Certificate and result.d.get('_key') is g['oname'] and \
                            result.d.get('id') is row[0] and result.d.get('_name') is row[1] and result.d.get('_data') is row[2]
            return out

        def xpost(c, cx, exc, **p):
            out, q = c._scoped(cx)
            if q is not None and exc.cls is KeyError:
                out['keyerror_only_without_a_matching_row_of_the_owner'] = q['rows'] == [None]
            elif q is not None:
                out['no_other_error'] = False
            return out
    _C.__name__ = f'view_{owner_cls.__name__}_{fn_.__name__}'
    return contract(_C)


_view(ks.Identity.__len__, ks.Identity, 'len', 'Identity.__len__: one query counting the keys of exactly this identity (scoped by its row id)')
_view(ks.Identity.__getitem__, ks.Identity, 'get',
      'Identity.__getitem__(name): one query for the key of that name AMONG THIS IDENTITY\'s keys (scoped by its row id); KeyError without '
      'such a row; the Key returned carries this identity\'s name, the row id and the key bits of the row')
_view(ks.Identity.has_default_key, ks.Identity, 'has_default', 'Identity.has_default_key: whether a default key row of exactly this identity exists')
_view(ks.Identity.default_key, ks.Identity, 'default',
      'Identity.default_key: the default key row of exactly this identity (KeyError without one), returned as a Key of this identity')
_view(ks.Key.__len__, ks.Key, 'len', 'Key.__len__: one query counting the certificates of exactly this key (scoped by its row id)')
_view(ks.Key.__getitem__, ks.Key, 'get',
      'Key.__getitem__(name): one query for the certificate of that name AMONG THIS KEY\'s certificates; KeyError without such a row; the '
      'Certificate returned carries this key\'s name and the row\'s id, name and data')
_view(ks.Key.has_default_cert, ks.Key, 'has_default', 'Key.has_default_cert: whether a default certificate row of exactly this key exists')
_view(ks.Key.default_cert, ks.Key, 'default',
      'Key.default_cert: the default certificate row of exactly this key (KeyError without one), returned as a Certificate of this key')


# ----------------------------------------------------------------------------- iteration of the views
def _iter_step(it, pre, env, g):
    d = it.run.ghost['vi']
    ys = d['yields']
    rows = d['conn'].queries[0]['rows'] if d['conn'].queries else []
    last = rows[-1] if rows else 'none'
    if last is None:
        return {'stops_at_the_first_missing_row_without_yielding': ys == []}
    ok = len(ys) == 1 and isinstance(ys[0], NameVal) and last != 'none'
    return {'one_name_per_row_decoded_from_its_first_column': ok and ys[0].base == ('decoded', last[0].label)}


def _iter_havoc(it, env, g):
    d = it.run.ghost['vi']
    d['yields'].clear()
    if d['conn'].queries:
        d['conn'].queries[0]['rows'].clear()
    return env['self']


def _iter_inv(it, env, g):
    d = it.run.ghost['vi']
    return {'one_query_open': len(d['conn'].queries) == 1}


def _view_iter(fn_, owner_cls, scoped, doc_):
    class _C(Contract):
        fn = fn_
        props = ('C15',)
        doc = doc_
        raises = {}
        loops = {1: LoopSpec(_iter_inv, havoc={'self': _iter_havoc}, step=_iter_step)}

        def setup(self, cx):
            run = cx.run
            conn = QConn()
            rid = Opaque('row_id', 'owner row id')
            d = dict(conn=conn, rid=rid, yields=[])
            run.ghost['vi'] = d
            run.ghost['on_yield'] = lambda it_, v, node: d['yields'].append(v)
            if owner_cls is ks.KeychainSqlite3:
                return dict(self=SymObj(owner_cls, dict(conn=conn)))
            return dict(self=SymObj(owner_cls, dict(pib=SymObj(ks.KeychainSqlite3, dict(conn=conn)), row_id=rid)))

        def post(c, cx, result, self):
            d = cx.run.ghost['vi']
            qs = d['conn'].queries
            out = {'exactly_one_query': len(qs) == 1}
            if len(qs) == 1:
                if scoped:
                    out['query_is_scoped_to_the_owner'] = qs[0]['params'] == (d['rid'],)
                else:
                    out['lists_every_identity'] = qs[0]['params'] == ()
                out['cursor_closed_after_the_last_row'] = qs[0].get('closed', 0) == 1
            return out
    _C.__name__ = f'iter_{owner_cls.__name__}'
    return contract(_C)


_view_iter(ks.Identity.__iter__, ks.Identity, True,
           'Identity.__iter__: one query for the key names of exactly this identity; every row yields the name decoded from it, in '
           'row order, until the rows run out; the cursor is closed')
_view_iter(ks.Key.__iter__, ks.Key, True,
           'Key.__iter__: one query for the certificate names of exactly this key; every row yields the decoded name; cursor closed')
_view_iter(ks.KeychainSqlite3.__iter__, ks.KeychainSqlite3, False,
           'KeychainSqlite3.__iter__: one query over all identities; every row yields the decoded identity name; cursor closed')
