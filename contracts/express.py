"""Contracts for the public Interest-sending entry points and for the shutdown clean-up (property C03):
appv2.NDNApp.express, app.NDNApp.express_interest (data flow into make_interest / express_raw_interest, refusals before
any effect) and _clean_up of both front-ends (every pending node cancelled once, tables emptied)."""
import logging
import z3
from ndn import appv2, app as app1, types, utils
from ndn.encoding import ndn_format_0_3 as nf
from pyvc.zutil import *
from pyvc.contracts import Contract, contract, LoopSpec
from pyvc.run import Unsupported
from pyvc.values import SymObj, Opaque, PyExc, CoroVal
from contracts.assumed_aio import _M, Face

B = z3.BoolSort()
BOOLARR = z3.ArraySort(INT, B)


def _g(it):
    return it.run.ghost.get('ex')


@contract
class make_interest_summary(Contract):
    """call-site summary (make_interest's own contract: contracts/packet.py): some wire and the final name, arguments recorded"""
    fn = nf.make_interest
    assumed = True
    raises = {ValueError: lambda cx, **p: True, TypeError: lambda cx, **p: True}

    def use_contract_at(c, it, args, kwargs):
        return _g(it) is not None

    def result(c, cx, **p):
        g = _g(cx.it)
        g['make_interest'].append(p)
        return (Opaque('wire', 'interest wire'), Opaque('final_name', 'final name'))


def _raw_summary(fn_):
    class _C(Contract):
        fn = fn_
        assumed = True

        def use_contract_at(c, it, args, kwargs):
            return _g(it) is not None

        def result(c, cx, **p):
            g = _g(cx.it)
            g['raw'].append(p)
            r = Opaque('coroutine', 'waiting coroutine')
            g['raw_result'] = r
            return r
    _C.__name__ = 'raw_summary_' + fn_.__module__.replace('.', '_')
    return contract(_C)


_raw_summary(appv2.NDNApp.express_raw_interest)
_raw_summary(app1.NDNApp.express_raw_interest)


def _install():
    from pyvc import models

    def m_nonce(it, a, k, n):
        g = _g(it)
        v = Opaque('nonce', 'fresh nonce')
        if g is not None:
            g['nonces'].append(v)
        return v
    models.REAL_FUNCTION_MODELS[utils.gen_nonce] = m_nonce

    def m_from_dict(it, a, k, n):
        g = _g(it)
        if g is None:          # not one of the contracts of this module: interpret the real function
            return it.invoke(it.function_from_real(nf.InterestParam.from_dict.__func__ if hasattr(nf.InterestParam.from_dict, '__func__')
                                                   else nf.InterestParam.from_dict), list(a), dict(k), n)
        p = Opaque('interest_param', 'param from kwargs')
        p.d['from'] = dict(a[0])
        g['from_dict'].append(p)
        return p
    models.REAL_FUNCTION_MODELS[nf.InterestParam.from_dict] = m_from_dict


_install()


def _kwargs_cases(run):
    kw = {}
    ik = run.choose([('interest_param given', True), ('built from kwargs', True)], 'interest_param')
    if ik == 'interest_param given':
        kw['interest_param'] = Opaque('interest_param', 'given param')
    else:
        nk = run.choose([('nonce given', True), ('no nonce', True)], 'nonce')
        if nk == 'nonce given':
            kw['nonce'] = 7
        kw['lifetime'] = 1234
    return kw, ik


class _ExpressBase(Contract):
    props = ('C03',)

    def flow(c, cx, result, g, name, app_param, signer, kw0, ik):
        out = {'one_interest_built_and_handed_to_the_table_once': len(g['make_interest']) == 1 and len(g['raw']) == 1}
        if not out['one_interest_built_and_handed_to_the_table_once']:
            return out
        mi, raw = g['make_interest'][0], g['raw'][0]
        if ik == 'interest_param given':
            ip = kw0['interest_param']
            out['given_parameters_used'] = mi['interest_param'] is ip and g['from_dict'] == []
        else:
            ok = len(g['from_dict']) == 1 and mi['interest_param'] is g['from_dict'][0]
            out['parameters_built_from_the_keyword_arguments'] = ok
            if ok:
                src = g['from_dict'][0].d['from']
                if 'nonce' in kw0:
                    out['given_nonce_kept'] = src.get('nonce') == kw0['nonce'] and g['nonces'] == []
                else:
                    out['fresh_nonce_generated'] = len(g['nonces']) == 1 and src.get('nonce') is g['nonces'][0]
                out['other_arguments_passed_on'] = src.get('lifetime') == 1234
            ip = g['from_dict'][0] if ok else None
        out['interest_built_from_name_parameters_and_signer'] = mi['name'] is name and mi['app_param'] is app_param and \
            mi['signer'] is signer and mi['need_final_name'] is True
        out['table_gets_the_final_name_the_wire_and_the_same_parameters'] = isinstance(raw['final_name'], Opaque) and \
            raw['final_name'].typ == 'final_name' and isinstance(raw['raw_interest'], Opaque) and raw['raw_interest'].typ == 'wire' and \
            raw['interest_param'] is ip
        out['returns_the_waiting_coroutine'] = result is g.get('raw_result')
        return out


@contract
class express_v2(_ExpressBase):
    fn = appv2.NDNApp.express
    doc = ('appv2 express: refused with NetworkError when the face is down and with ValueError when ApplicationParameters come '
           'without a signer - before anything is built or sent; otherwise one Interest is built from the name, the given or '
           'keyword-built parameters (fresh nonce unless given) and the signer, and handed - final name, wire, the same parameters, '
           'validator, no_response flag - to express_raw_interest, whose coroutine is returned')
    exact_raises = False
    raises = {types.NetworkError: lambda cx, **p: True, ValueError: lambda cx, **p: True, TypeError: lambda cx, **p: True}

    def setup(self, cx):
        run = cx.run
        face = Face(run)
        g = dict(make_interest=[], raw=[], nonces=[], from_dict=[])
        run.ghost['ex'] = g
        kw, ik = _kwargs_cases(run)
        nr = run.choose([('absent', True), (True, True)], 'no_response')
        if nr is True:
            kw['no_response'] = True
        ak = run.choose([('app_param=None', True), ('app_param', True)], 'app_param')
        sk = run.choose([('signer=None', True), ('signer', True)], 'signer')
        g.update(kw0=dict(kw), ik=ik, face=face)
        self_ = SymObj(appv2.NDNApp, dict(logger=logging.getLogger('ndn.appv2'), face=face, _pit=None, _fib=None))
        return dict(self=self_, name=Opaque('token', 'name'), validator=Opaque('validator', 'validator'),
                    app_param=Opaque('token', 'app param') if ak == 'app_param' else None,
                    signer=Opaque('token', 'signer') if sk == 'signer' else None, kwargs=kw)

    def xpost(c, cx, exc, self, name, validator, app_param, signer, kwargs):
        g = cx.run.ghost['ex']
        out = {}
        if exc.cls is types.NetworkError:
            out['only_when_the_face_is_down_and_before_any_effect'] = And(Not(g['face'].running), g['make_interest'] == [] and g['raw'] == [])
        elif 'make_interest' in str(getattr(exc, 'eargs', '')):
            out['encoding_errors_come_from_make_interest_nothing_sent'] = g['raw'] == []
        else:
            out['parameters_without_signer_refused_before_any_effect'] = app_param is not None and signer is None and g['raw'] == [] and \
                g['make_interest'] == []
        return out

    def post(c, cx, result, self, name, validator, app_param, signer, kwargs):
        g = cx.run.ghost['ex']
        out = {'face_was_up': g['face'].running, 'parameters_come_with_a_signer': not (app_param is not None and signer is None)}
        out.update(c.flow(cx, result, g, name, app_param, signer, g['kw0'], g['ik']))
        if g['raw']:
            raw = g['raw'][0]
            out['validator_and_no_response_passed_on'] = raw['validator'] is validator and raw['no_response'] is g['kw0'].get('no_response', False)
        return out


class Keychain1:
    def __init__(self):
        self.calls = []

    def getattr_(self, it, name, node):
        if name == 'get_signer':
            def f(it_, kw):
                s = Opaque('token', 'keychain signer')
                self.calls.append((dict(kw), s))
                return s
            return _M(f)
        raise Unsupported(f'keychain.{name}')


@contract
class express_interest_v1(_ExpressBase):
    fn = app1.NDNApp.express_interest
    doc = ('legacy express_interest: refused with NetworkError when the face is down, before anything is built or sent; the signer is '
           'the explicit one, else - only for Interests with ApplicationParameters - the keychain\'s signer for the keyword '
           'arguments, else none; one Interest is built and handed (final name, wire, same parameters, validator, raw-packet flag) '
           'to express_raw_interest, whose coroutine is returned')
    raises = {types.NetworkError: lambda cx, **p: True, ValueError: lambda cx, **p: True, TypeError: lambda cx, **p: True}

    def setup(self, cx):
        run = cx.run
        face = Face(run)
        g = dict(make_interest=[], raw=[], nonces=[], from_dict=[])
        run.ghost['ex'] = g
        kw, ik = _kwargs_cases(run)
        sk = run.choose([('signer given', True), ('no signer argument', True)], 'signer')
        if sk == 'signer given':
            kw['signer'] = Opaque('token', 'signer')
        ak = run.choose([('app_param=None', True), ('app_param', True)], 'app_param')
        kc = Keychain1()
        g.update(kw0=dict(kw), ik=ik, face=face, kc=kc)
        self_ = SymObj(app1.NDNApp, dict(logger=logging.getLogger('ndn.app'), face=face, keychain=kc, _int_tree=None, _prefix_tree=None))
        return dict(self=self_, name=Opaque('token', 'name'), app_param=Opaque('token', 'app param') if ak == 'app_param' else None,
                    validator=Opaque('validator', 'validator'), need_raw_packet=run.choose([(False, True), (True, True)], 'need_raw_packet'),
                    kwargs=kw)

    def xpost(c, cx, exc, self, name, app_param, validator, need_raw_packet, kwargs):
        g = cx.run.ghost['ex']
        if exc.cls is types.NetworkError:
            return {'only_when_the_face_is_down_and_before_any_effect': And(Not(g['face'].running), g['make_interest'] == [] and
                                                                            g['raw'] == [] and g['kc'].calls == [])}
        return {}

    def post(c, cx, result, self, name, app_param, validator, need_raw_packet, kwargs):
        g = cx.run.ghost['ex']
        kw0, kc = g['kw0'], g['kc']
        if 'signer' in kw0:
            want = kw0['signer']
            sel = kc.calls == []
        elif app_param is not None:
            sel = len(kc.calls) == 1
            want = kc.calls[0][1] if sel else None
        else:
            want, sel = None, kc.calls == []
        out = {'face_was_up': g['face'].running, 'signer_selected_as_documented': sel}
        out.update(c.flow(cx, result, g, name, app_param, want, kw0, g['ik']))
        if g['raw']:
            raw = g['raw'][0]
            out['validator_and_raw_packet_flag_passed_on'] = raw['validator'] is validator and raw['need_raw_packet'] is need_raw_packet
        return out


# ----------------------------------------------------------------------------- _clean_up
NNODE = z3.Int('N_PENDING_NODES')


class NodeC:
    def __init__(self, w, j):
        self.w, self.j = w, j

    def getattr_(self, it, name, node):
        if name == 'cancel':
            def cancel(it_):
                w, j = self.w, zint(self.j)
                if it_.run.branch(z3.Select(w['cancelled'], j), 'node.cancelled_twice'):
                    w['double'] = True
                w['cancelled'] = z3.Store(w['cancelled'], j, z3.BoolVal(True))
            return _M(cancel)
        raise Unsupported(f'InterestTreeNode.{name}')


class NodeSeq:
    def __init__(self, w):
        self.w = w

    def seq_len(self):
        return NNODE

    def elem(self, it, i):
        return NodeC(self.w, simp(zint(i)))

    def iterate(self, it, node):
        raise Unsupported('iteration over the table values needs a loop specification')


class Table:
    def __init__(self, w, label, values=True):
        self.w, self.label, self.values = w, label, values
        self.cleared = 0

    def getattr_(self, it, name, node):
        if name == 'itervalues' and self.values:
            return _M(lambda it_: NodeSeq(self.w))
        if name == 'clear':
            def clear(it_):
                self.cleared += 1
            return _M(clear)
        raise Unsupported(f'NameTrie.{name}')


def _cu_inv(it, env, g):
    w = it.run.ghost['cu']
    a = z3.Int('a!cu')
    return {'exactly_the_nodes_so_far_are_cancelled_once': And(z3.ForAll([a], z3.Select(w['cancelled'], a) == z3.And(a >= 0, a < zint(g['i']))),
                                                              w['double'] is False)}


def _cu_havoc(it, env, g):
    w = it.run.ghost['cu']
    w['cancelled'] = z3.Const(it.run.fresh_name('cancelled'), BOOLARR)
    return env['self']


class _CleanBase(Contract):
    props = ('C03',)
    raises = {}
    loops = {1: LoopSpec(_cu_inv, havoc={'self': _cu_havoc})}

    def mk(self, cx):
        run = cx.run
        run.assume(NNODE >= 0)
        w = dict(cancelled=z3.K(INT, z3.BoolVal(False)), double=False)
        run.ghost['cu'] = w
        return w

    def common(c, cx, pit):
        w = cx.run.ghost['cu']
        a = z3.Int('a!cp')
        return {'every_pending_node_cancelled_exactly_once': And(z3.ForAll([a], z3.Select(w['cancelled'], a) == z3.And(a >= 0, a < NNODE)),
                                                                 w['double'] is False),
                'pending_table_emptied_once': pit.cleared == 1}


@contract
class clean_up_v2(_CleanBase):
    fn = appv2.NDNApp._clean_up
    doc = ('appv2 _clean_up, ANY number of pending nodes: every node is cancelled exactly once (InterestTreeNode.cancel: every pending '
           'future ends as cancelled) and the pending table is emptied; the handler table is kept')

    def setup(self, cx):
        w = self.mk(cx)
        pit, fib = Table(w, 'pit'), Table(w, 'fib', values=False)
        cx.run.ghost['cu.t'] = (pit, fib)
        return dict(self=SymObj(appv2.NDNApp, dict(_pit=pit, _fib=fib)))

    def post(c, cx, result, self):
        pit, fib = cx.run.ghost['cu.t']
        out = c.common(cx, pit)
        out['handler_table_kept'] = fib.cleared == 0
        return out


@contract
class clean_up_v1(_CleanBase):
    fn = app1.NDNApp._clean_up
    doc = ('legacy _clean_up, ANY number of pending nodes: every node is cancelled exactly once and both the pending table and the '
           'handler table are emptied (handlers registered dynamically do not survive a disconnect)')

    def setup(self, cx):
        w = self.mk(cx)
        pit, fib = Table(w, 'int_tree'), Table(w, 'prefix_tree', values=False)
        cx.run.ghost['cu.t'] = (pit, fib)
        return dict(self=SymObj(app1.NDNApp, dict(_int_tree=pit, _prefix_tree=fib)))

    def post(c, cx, result, self):
        pit, fib = cx.run.ghost['cu.t']
        out = c.common(cx, pit)
        out['handler_table_emptied_once'] = fib.cleared == 1
        return out


# ----------------------------------------------------------------------------- Data-sending wrappers
from ndn.security.signer import NullSigner                                      # noqa: E402


@contract
class make_data_summary(Contract):
    """call-site summary (make_data's own contract: contracts/packet.py): some wire, arguments recorded"""
    fn = nf.make_data
    assumed = True
    raises = {ValueError: lambda cx, **p: True, TypeError: lambda cx, **p: True}

    def use_contract_at(c, it, args, kwargs):
        return it.run.ghost.get('dw') is not None

    def result(c, cx, **p):
        cx.run.ghost['dw']['make_data'].append(p)
        return Opaque('wire', 'data wire')


def _install_dw():
    from pyvc import models

    def m_from_dict(it, a, k, n):
        g = it.run.ghost.get('dw')
        if g is None:          # not one of the contracts of this module: interpret the real function
            return it.invoke(it.function_from_real(nf.MetaInfo.from_dict.__func__ if hasattr(nf.MetaInfo.from_dict, '__func__')
                                                   else nf.MetaInfo.from_dict), list(a), dict(k), n)
        mi = Opaque('meta_info', 'meta info from kwargs')
        mi.d['from'] = dict(a[0])
        g['from_dict'].append(mi)
        return mi
    models.REAL_FUNCTION_MODELS[nf.MetaInfo.from_dict] = m_from_dict


_install_dw()


class _DataBase(Contract):
    props = ('C01', 'C05')
    raises = {ValueError: lambda cx, **p: True, TypeError: lambda cx, **p: True}

    def mk(self, cx):
        run = cx.run
        g = dict(make_data=[], from_dict=[])
        run.ghost['dw'] = g
        mk_ = run.choose([('meta_info given', True), ('built from kwargs', True)], 'meta_info')
        kw = {'freshness_period': 4000}
        if mk_ == 'meta_info given':
            kw['meta_info'] = Opaque('meta_info', 'given meta info')
        g.update(kw0=dict(kw), mk=mk_)
        return g, kw

    def meta_clause(c, g, md):
        if g['mk'] == 'meta_info given':
            return {'given_meta_info_used': md['meta_info'] is g['kw0']['meta_info'] and g['from_dict'] == []}
        ok = len(g['from_dict']) == 1 and md['meta_info'] is g['from_dict'][0]
        return {'meta_info_built_from_the_keyword_arguments': ok and g['from_dict'][0].d['from'].get('freshness_period') == 4000}


@contract
class make_data_v2(_DataBase):
    fn = appv2.NDNApp.make_data
    doc = ('appv2 NDNApp.make_data: exactly one Data packet is encoded from this name, content and signer with the given MetaInfo, or one '
           'built from the keyword arguments, and returned')

    def setup(self, cx):
        g, kw = self.mk(cx)
        return dict(name=Opaque('token', 'name'), content=Opaque('token', 'content'), signer=Opaque('token', 'signer'), kwargs=kw)

    def post(c, cx, result, name, content, signer, kwargs):
        g = cx.run.ghost['dw']
        ok = len(g['make_data']) == 1
        out = {'one_packet_encoded_and_returned': ok and isinstance(result, Opaque) and result.typ == 'wire'}
        if ok:
            md = g['make_data'][0]
            out['from_this_name_content_and_signer'] = md['name'] is name and md['content'] is content and md['signer'] is signer
            out.update(c.meta_clause(g, md))
        return out


@contract
class prepare_data_v1(_DataBase):
    fn = app1.NDNApp.prepare_data
    doc = ('legacy prepare_data: the signer is a NullSigner for no_signature, else the explicit signer, else the keychain\'s signer for the '
           'keyword arguments; exactly one Data packet is encoded from this name, content, that signer and the given or keyword-built '
           'MetaInfo, and returned')

    def setup(self, cx):
        run = cx.run
        g, kw = self.mk(cx)
        sk = run.choose([('no_signature', True), ('signer given', True), ('keychain', True)], 'signing')
        if sk == 'no_signature':
            kw['no_signature'] = True
            if run.choose([(False, True), (True, True)], 'also a signer argument'):
                kw['signer'] = Opaque('token', 'signer')
        elif sk == 'signer given':
            kw['signer'] = Opaque('token', 'signer')
        kc = Keychain1()
        g.update(kw0=dict(kw), sk=sk, kc=kc)
        self_ = SymObj(app1.NDNApp, dict(keychain=kc, face=None, logger=logging.getLogger('ndn.app')))
        return dict(self=self_, name=Opaque('token', 'name'), content=Opaque('token', 'content'), kwargs=kw)

    def post(c, cx, result, self, name, content, kwargs):
        g = cx.run.ghost['dw']
        ok = len(g['make_data']) == 1
        out = {'one_packet_encoded_and_returned': ok and isinstance(result, Opaque) and result.typ == 'wire'}
        if ok:
            md = g['make_data'][0]
            out['from_this_name_and_content'] = md['name'] is name and md['content'] is content
            s = md['signer']
            if g['sk'] == 'no_signature':
                out['unsigned_on_request'] = isinstance(s, SymObj) and s.cls is NullSigner and g['kc'].calls == []
            elif g['sk'] == 'signer given':
                out['explicit_signer_used'] = s is g['kw0']['signer'] and g['kc'].calls == []
            else:
                out['keychain_signer_for_the_keyword_arguments'] = len(g['kc'].calls) == 1 and s is g['kc'].calls[0][1]
            out.update(c.meta_clause(g, md))
        return out


class FaceS:
    def __init__(self, run):
        self.running = run.input_bool('face.running')
        self.sent = []

    def getattr_(self, it, name, node):
        if name == 'running':
            return self.running
        if name == 'send':
            return _M(lambda it_, d: self.sent.append(d))
        raise Unsupported(f'face.{name}')


def _put_raw(fn_, cls_, label):
    class _C(Contract):
        fn = fn_
        props = ('C01', 'C10')
        doc = f'{label}: refused with NetworkError when the face is down, otherwise exactly this packet is handed to the face once, unchanged'
        raises = {types.NetworkError: lambda cx, self, data: Not(self.d['face'].running)}
        exact_raises = True

        def setup(self, cx):
            return dict(self=SymObj(cls_, dict(face=FaceS(cx.run))), data=Opaque('wire', 'packet'))

        def post(c, cx, result, self, data):
            return {'this_packet_sent_once_unchanged': self.d['face'].sent == [data]}

        def xpost(c, cx, exc, self, data):
            return {'nothing_sent_when_refused': self.d['face'].sent == []}
    _C.__name__ = 'put_raw_' + cls_.__module__.replace('.', '_')
    return contract(_C)


_put_raw(appv2.NDNApp._put_raw_packet, appv2.NDNApp, 'appv2 _put_raw_packet')
_put_raw(app1.NDNApp.put_raw_packet, app1.NDNApp, 'legacy put_raw_packet')
