"""Contracts for NameField, ModelField, SignatureValueField and the assumed Signer interface."""
import struct
import z3
from ndn.encoding import tlv_model as tm
from ndn.encoding.name import Name
from pyvc.zutil import *
from pyvc.contracts import Contract, contract, LoopSpec, REGISTRY
from pyvc.run import View, Unsupported, PathEnd
from pyvc.values import SymObj, SymStr, Opaque, PyExc, BoundMethod
from pyvc.symseq import BufSeq, PS
from spec.tlv import *
from contracts.fields import A, mk_field, key, P
from contracts.model import AbsInstance, AbsFields, _M

TYPE_NAME = 7


# ----------------------------------------------------------------------------- ghost: announced length of a nested model
def model_len(run, obj):
    """ghost ML(obj): the number of bytes the nested model `obj` announces/encodes (>= 0); one symbol per object"""
    if isinstance(obj, AbsInstance):
        return obj.fields.psum(obj.fields.n)
    k = ('ML', id(obj))
    if k not in run.ghost:
        t = run.fresh_int('ML')
        run.assume(z3.And(t >= 0, t < 2 ** 32))
        run.ghost[k] = t
        run.overlay_keep.append(obj)
    return run.ghost[k]


UNROLL_CLASSES = {'LpPacketValue', 'LpPacket', 'NetworkNack', 'CertificateV2Value', 'CertificateV2SignatureInfo', 'ValidityPeriod',
                  'ControlParameters', 'ControlParametersValue'}


def is_plain_model(val):
    """nested models handled through the generic TlvModel contracts (ghost length): abstract instances and instances
    of shipped classes that do not override encoded_length/encode"""
    if isinstance(val, AbsInstance):
        return True
    if isinstance(val, SymObj) and issubclass(val.cls, tm.TlvModel):
        if val.cls.__name__ in UNROLL_CLASSES:
            return False
        return val.cls.encoded_length is tm.TlvModel.encoded_length and val.cls.encode is tm.TlvModel.encode
    return False


# ----------------------------------------------------------------------------- assumed: Signer interface
def new_signer(run, label='signer'):
    s = Opaque('Signer', label)
    S = run.fresh_int('S')
    run.assume(z3.And(S >= 0, S < 2 ** 32))
    s.d['S'] = S
    run.inputs.append((label + '.S', 'int', S))
    return s


def _signer_attr(obj, name):
    if name == 'get_signature_value_size':
        return _M(lambda it: obj.d['S'])
    if name == 'write_signature_info':
        def f(it, si):
            t = it.run.fresh_int('sigtype')
            it.run.assume(z3.And(t >= 0, t <= 255))
            it.setattr(si, 'signature_type', t)
            it.run.ghost['signer.info_written_to'] = si
            return None
        return _M(f)
    if name == 'write_signature_value':
        def f(it, wire, contents):
            run = it.run
            run.oblige(f'{it.where()}#call[Signer.write_signature_value].pre:buffer_is_reserved_size',
                       And(isinstance(wire, View), Eq(wire.length, obj.d['S'])))
            run.ghost['signer.signed'] = (list(contents) if isinstance(contents, list) else contents, run.heap, wire)
            r = run.fresh_int('siglen')
            run.inputs.append(('signer.r', 'int', r))
            run.assume(z3.And(r >= 0, r <= obj.d['S']))
            run.havoc_range(wire, 0, r, 'sigvalue')
            return r
        return _M(f)
    return None


REGISTRY.opaque_handlers['Signer'] = _signer_attr


# ----------------------------------------------------------------------------- NameField
def name_cases(cx, kinds=('None', 'str', 'bytes', 'list')):
    k = cx.run.choose([(x, True) for x in kinds], 'name')
    cx.run.input_const('name_kind', k)
    if k == 'None':
        return k, None
    if k == 'str':
        return k, SymStr('name_uri', None, None)
    if k == 'bytes':
        v = cx.run.input_buf('name', 'bytes')
        return k, v
    if k == 'list':
        seq = cx.run.input_bufseq('name', 'bytearray')
        cx.run.assume(seq.total() < M64)
        return k, seq
    raise ValueError(k)


@contract
class name_from_str(Contract):
    """ASSUMED here (string processing is decided by the bounded tier, property C09): returns some FormalName"""
    fn = Name.from_str
    assumed = True
    props = ()
    raises = {ValueError: lambda cx, val: True}

    def result(c, cx, val):
        seq = BufSeq.fresh(cx.run, 'from_str', 'bytearray')
        cx.run.assume(seq.total() < 2 ** 32)
        cx.run.ghost[('from_str', id(val))] = seq
        cx.run.ghost.setdefault('from_str_calls', []).append((val, seq, seq.n))      # text, result, its length at creation
        return seq


def name_wire_len(run, name):
    """bytes a NameField value occupies: encoded name as given, or 1 + tlsize(sum) + sum for component lists"""
    if isinstance(name, View):
        return name.length
    total = name.total()
    return simp(1 + tlsize(total) + total)


@contract
class namefield_encoded_length(Contract):
    fn = tm.NameField.encoded_length
    props = P + ('C09',)
    doc = 'NameField announces the size of the encoded Name (07 tlenc(sum) components), or len(name) for a pre-encoded name'
    raises = {ValueError: lambda cx, self, val, markers: isinstance(val, SymStr),
              TypeError: lambda cx, self, val, markers: False}
    loops = {1: LoopSpec(lambda it, env, g: {})}

    def setup(self, cx):
        k, val = name_cases(cx)
        return dict(self=mk_field(cx, tm.NameField, type_num=TYPE_NAME), val=val, markers={})

    def post(c, cx, result, self, val, markers):
        if val is None:
            return {'absent_is_zero': Eq(result, 0)}
        pre = markers.get(key(self, 'preprocessed_name'))
        if isinstance(val, SymStr):
            if not isinstance(pre, BufSeq):
                return {'preprocessed_is_component_list': False}
            return {'announced': Eq(result, name_wire_len(cx.run, pre)),
                    'recorded': Eq(markers.get(key(self, 'encoded_length_with_tl'), -1), result)}
        return {'announced': Eq(result, name_wire_len(cx.run, val)),
                'recorded': Eq(markers.get(key(self, 'encoded_length_with_tl'), -1), result),
                'preprocessed_kept': pre is val or isinstance(pre, BufSeq)}

    def result(c, cx, self, val, markers):
        if val is None:
            return 0
        name = val
        if isinstance(val, SymStr):
            name = BufSeq.fresh(cx.run, 'from_str', 'bytearray')
            cx.run.assume(name.total() < 2 ** 32)
        elif isinstance(val, BufSeq):
            name = val.copy()
        n = name_wire_len(cx.run, name)
        markers[key(self, 'preprocessed_name')] = name
        markers[key(self, 'encoded_length_with_tl')] = n
        return n


@contract
class namefield_encode_into(Contract):
    fn = tm.NameField.encode_into
    props = P + ('C09',)
    doc = 'NameField writes exactly the announced bytes: the pre-encoded name verbatim, or 07 tlenc(sum) components; frame'

    def setup(self, cx):
        k, val = name_cases(cx, ('None', 'bytes', 'list'))
        self_ = mk_field(cx, tm.NameField, type_num=TYPE_NAME)
        markers = {}
        if val is not None:
            markers[key(self_, 'preprocessed_name')] = val
            markers[key(self_, 'encoded_length_with_tl')] = name_wire_len(cx.run, val)
        return dict(self=self_, val=val, markers=markers, wire=cx.run.input_buf('wire', 'memoryview', True),
                    offset=cx.run.input_int('offset'))

    def pre(c, cx, self, val, markers, wire, offset):
        # wire non-empty: Name.encode's `if not buf` treats an EMPTY supplied buffer as "no buffer" (callers allocate
        # the announced size, which is >= 2 whenever a name is present)
        ok = And(zint(offset) >= 0, isinstance(wire, View) and wire.writable, zint(offset) <= zint(wire.length),
                 zint(wire.length) > 0)
        if val is None:
            return ok
        name = markers.get(key(self, 'preprocessed_name'))
        if not isinstance(name, (View, BufSeq)):
            return False
        return And(ok, Eq(markers.get(key(self, 'encoded_length_with_tl'), -1), name_wire_len(cx.run, name)))

    raises = {IndexError: lambda cx, self, val, markers, wire, offset: False if val is None else
              And(isinstance(markers[key(self, 'preprocessed_name')], BufSeq),
                  zint(offset) + zint(markers[key(self, 'encoded_length_with_tl')]) > zint(wire.length)),
              ValueError: lambda cx, self, val, markers, wire, offset: False if val is None else
              And(isinstance(markers[key(self, 'preprocessed_name')], View),
                  zint(offset) + zint(markers[key(self, 'encoded_length_with_tl')]) > zint(wire.length))}
    exact_raises = True

    def post(c, cx, result, self, val, markers, wire, offset):
        if val is None:
            return {'absent_is_zero': Eq(result, 0), 'frame': cx.frame(wire, offset, offset)}
        n = markers[key(self, 'encoded_length_with_tl')]
        name = markers[key(self, 'preprocessed_name')]
        out = {'as_announced': Eq(result, n), 'frame': cx.frame(wire, offset, simp(zint(offset) + zint(n)))}
        if isinstance(name, BufSeq):
            out['type_byte'] = wire.at(cx.heap, offset) == TYPE_NAME
            out['length_shortest'] = tlenc_at(cx.heap, wire, simp(zint(offset) + 1), name.total())
        else:
            from contracts.name import bytes_equal
            out['verbatim'] = bytes_equal(cx.heap, wire, offset, cx.old_heap, name, 0, n)
        return out

    def result(c, cx, self, val, markers, wire, offset):
        if val is None:
            return 0
        n = markers[key(self, 'encoded_length_with_tl')]
        name = markers[key(self, 'preprocessed_name')]
        if isinstance(name, View):
            cx.run.copy_into(wire, offset, name, n)
        else:
            cx.run.havoc_range(wire, offset, n, 'namefield')
        cx.run.assume(bytes_in_range(cx.heap, wire, offset, 10))
        return n

    def post_assumed(c, cx, result, self, val, markers, wire, offset):
        if val is None:
            return {}
        name = markers[key(self, 'preprocessed_name')]
        if isinstance(name, BufSeq):
            return {'t': wire.at(cx.heap, offset) == TYPE_NAME,
                    'l': tlenc_at(cx.heap, wire, simp(zint(offset) + 1), name.total())}
        return {}


@contract
class namefield_parse_from(Contract):
    fn = tm.NameField.parse_from
    props = P + ('C09',)
    doc = 'NameField.parse_from decodes the Name element that starts at offset_btl'
    raises = {ValueError: lambda cx, **p: True, IndexError: lambda cx, **p: True, struct.error: lambda cx, **p: True}

    def setup(self, cx):
        return dict(self=mk_field(cx, tm.NameField, type_num=TYPE_NAME), instance=None, markers={}, wire=cx.run.input_buf('wire', 'bytes'),
                    offset=cx.run.input_int('offset'), length=cx.run.input_int('length'), offset_btl=cx.run.input_int('offset_btl'))

    def pre(c, cx, self, instance, markers, wire, offset, length, offset_btl):
        return And(zint(offset_btl) >= 0, isinstance(wire, View))

    def post(c, cx, result, self, instance, markers, wire, offset, length, offset_btl):
        return {'is_component_list': isinstance(result, BufSeq) or result == []}

    def result(c, cx, self, instance, markers, wire, offset, length, offset_btl):
        return BufSeq.fresh(cx.run, 'parsed_name', 'memoryview')


# ----------------------------------------------------------------------------- ModelField
class _ModelFieldBase(Contract):
    props = P

    def use_contract_at(c, it, args, kwargs):
        val = args[1] if len(args) > 1 else kwargs.get('val')
        return val is None or is_plain_model(val)

    def mk_self(self, cx):
        return mk_field(cx, tm.ModelField, model_type=tm.TlvModel, copy_in_fields={}, copy_out_fields={}, ignore_critical=False)

    def mk_val(self, cx):
        k = cx.run.choose([('None', True), ('model', True)], 'val')
        if k == 'None':
            return None
        inst = AbsInstance(AbsFields(cx.run))
        cx.run.assume(model_len(cx.run, inst) < M64)
        return inst


@contract
class modelfield_encoded_length(_ModelFieldBase):
    fn = tm.ModelField.encoded_length
    doc = 'ModelField announces tlsize(T) + tlsize(L) + L where L is what the nested model announces'
    raises = {TypeError: lambda cx, self, val, markers: val is not None, ValueError: lambda cx, self, val, markers: val is not None}

    def setup(self, cx):
        return dict(self=self.mk_self(cx), val=self.mk_val(cx), markers={})

    def pre(c, cx, self, val, markers):
        return And(zint(A(self, 'type_num')) >= 0, zint(A(self, 'type_num')) < M64)

    def post(c, cx, result, self, val, markers):
        if val is None:
            return {'absent_is_zero': Eq(result, 0)}
        L = model_len(cx.run, val)
        return {'announced': Eq(result, tlsize(A(self, 'type_num')) + tlsize(L) + L),
                'recorded': Eq(markers.get(key(self, 'encoded_length'), -1), L),
                'inner_markers_kept': isinstance(markers.get(key(self, 'inner_markers')), dict)}

    def result(c, cx, self, val, markers):
        if val is None:
            return 0
        L = model_len(cx.run, val)
        copy = {f.name for f in A(self, 'copy_in_fields')}
        inner = {k: v for k, v in markers.items() if k.split('##')[0] in copy}
        inner['##encoded_length'] = L
        markers[key(self, 'inner_markers')] = inner
        markers[key(self, 'encoded_length')] = L
        return simp(tlsize(A(self, 'type_num')) + tlsize(L) + L)


@contract
class modelfield_encode_into(_ModelFieldBase):
    fn = tm.ModelField.encode_into
    doc = 'ModelField writes tlenc(T) tlenc(L) then the nested model in exactly L bytes; returns the announced size; frame'
    raises = {e: (lambda cx, self, val, markers, wire, offset: val is not None) for e in (struct.error, IndexError, ValueError, TypeError)}

    def setup(self, cx):
        self_ = self.mk_self(cx)
        val = self.mk_val(cx)
        markers = {}
        if val is not None:
            L = model_len(cx.run, val)
            markers[key(self_, 'inner_markers')] = {'##encoded_length': L}
            markers[key(self_, 'encoded_length')] = L
        return dict(self=self_, val=val, markers=markers, wire=cx.run.input_buf('wire', 'memoryview', True),
                    offset=cx.run.input_int('offset'))

    def pre(c, cx, self, val, markers, wire, offset):
        ok = And(zint(offset) >= 0, isinstance(wire, View) and wire.writable, zint(A(self, 'type_num')) >= 0,
                 zint(A(self, 'type_num')) < M64, zint(offset) <= zint(wire.length))
        if val is None:
            return ok
        if key(self, 'encoded_length') not in markers:
            return False
        return And(ok, Eq(markers[key(self, 'encoded_length')], model_len(cx.run, val)))

    def post(c, cx, result, self, val, markers, wire, offset):
        if val is None:
            return {'absent_is_zero': Eq(result, 0), 'frame': cx.frame(wire, offset, offset)}
        t, L = A(self, 'type_num'), model_len(cx.run, val)
        n = tlsize(t) + tlsize(L) + L
        return {'as_announced': Eq(result, n),
                'type_shortest': tlenc_at(cx.heap, wire, offset, t),
                'length_shortest': tlenc_at(cx.heap, wire, zint(offset) + tlsize(t), L),
                'inside': zint(offset) + n <= zint(wire.length),
                'frame': cx.frame(wire, offset, simp(zint(offset) + n))}

    def result(c, cx, self, val, markers, wire, offset):
        if val is None:
            return 0
        t, L = A(self, 'type_num'), model_len(cx.run, val)
        n = simp(tlsize(t) + tlsize(L) + L)
        cx.run.assume(zint(offset) + n <= zint(wire.length))
        cx.run.havoc_range(wire, offset, n, 'modelfield')
        cx.run.assume(bytes_in_range(cx.heap, wire, offset, 18))
        return n

    def post_assumed(c, cx, result, self, val, markers, wire, offset):
        if val is None:
            return {}
        t, L = A(self, 'type_num'), model_len(cx.run, val)
        return {'t': tlenc_at(cx.heap, wire, offset, t), 'l': tlenc_at(cx.heap, wire, zint(offset) + tlsize(t), L)}


# ----------------------------------------------------------------------------- SignatureValueField
def arg_key(field):
    return f'{A(field, "name")}##args'


def get_arg(field, markers):
    return markers.get(arg_key(field), A(field, 'default'))


class _SigBase(Contract):
    props = ('C01', 'C02', 'C16')

    def mk_self(self, cx):
        def pa(name, cls=tm.ProcedureArgument, default=None):
            return SymObj(cls, dict(name=name, type_num=-1, default=default))
        t = cx.run.input_int('type_num')
        cx.run.assume(And(t >= 0, t <= 252))
        return SymObj(tm.SignatureValueField, dict(
            name='F', type_num=t, default=None, signer=pa('_signer'), covered_part=pa('_sig_cover_part'),
            starting_point=pa('_sig_cover_start', tm.OffsetMarker), value_buffer=pa('_sig_value_buf'),
            shrink_len=pa('_shrink_len', default=0)))

    def mk_signer(self, cx, self_, markers):
        k = cx.run.choose([('no signer', True), ('signer', True)], 'signer')
        cx.run.input_const('has_signer', k == 'signer')
        if k == 'signer':
            markers[arg_key(A(self_, 'signer'))] = new_signer(cx.run)
        return k == 'signer'


@contract
class sigvalue_encoded_length(_SigBase):
    fn = tm.SignatureValueField.encoded_length
    doc = 'SignatureValueField reserves 1 + tlsize(S) + S bytes, S = signer.get_signature_value_size(); nothing without a signer'

    def setup(self, cx):
        self_, markers = self.mk_self(cx), {}
        self.mk_signer(cx, self_, markers)
        return dict(self=self_, val=None, markers=markers)

    def pre(c, cx, self, val, markers):
        return And(zint(A(self, 'type_num')) >= 0, zint(A(self, 'type_num')) <= 252)

    def post(c, cx, result, self, val, markers):
        s = get_arg(A(self, 'signer'), markers)
        if s is None:
            return {'absent_is_zero': Eq(result, 0)}
        S = s.d['S']
        return {'reserved': Eq(result, 1 + tlsize(S) + S), 'recorded': Eq(markers.get(key(self, 'encoded_length'), -1), S)}

    def result(c, cx, self, val, markers):
        s = get_arg(A(self, 'signer'), markers)
        if s is None:
            return 0
        S = s.d['S']
        markers[key(self, 'encoded_length')] = S
        return simp(1 + tlsize(S) + S)


@contract
class sigvalue_encode_into(_SigBase):
    fn = tm.SignatureValueField.encode_into
    exact_raises = True
    doc = ('SignatureValueField writes T and the shortest-form reserved length S, records the covered range '
           '[start marker, this element) and the S-byte value buffer right after the header; value bytes untouched')

    def setup(self, cx):
        self_, markers = self.mk_self(cx), {}
        has = self.mk_signer(cx, self_, markers)
        wire = cx.run.input_buf('wire', 'memoryview', True)
        offset = cx.run.input_int('offset')
        if has:
            markers[key(self_, 'encoded_length')] = markers[arg_key(A(self_, 'signer'))].d['S']
            markers[arg_key(A(self_, 'covered_part'))] = []
            k = cx.run.choose([('start marker unset', True), ('start marker set', True)], 'marker')
            if k == 'start marker set':
                st = cx.run.input_int('sig_cover_start')
                cx.run.assume(And(st >= 0, st <= zint(offset)))
                markers[arg_key(A(self_, 'starting_point'))] = st
        return dict(self=self_, val=None, markers=markers, wire=wire, offset=offset)

    def pre(c, cx, self, val, markers, wire, offset):
        ok = And(zint(offset) >= 0, isinstance(wire, View) and wire.writable, zint(offset) <= zint(wire.length),
                 zint(A(self, 'type_num')) >= 0, zint(A(self, 'type_num')) <= 252)
        s = get_arg(A(self, 'signer'), markers)
        if s is None:
            return ok
        if key(self, 'encoded_length') not in markers:
            return False
        st = get_arg(A(self, 'starting_point'), markers)
        cov = get_arg(A(self, 'covered_part'), markers)
        if st is not None:
            if not isinstance(cov, list):
                return False
            ok = And(ok, zint(st) >= 0, zint(st) <= zint(offset))
        return And(ok, Eq(markers[key(self, 'encoded_length')], s.d['S']))

    raises = {struct.error: lambda cx, self, val, markers, wire, offset:
              False if get_arg(A(self, 'signer'), markers) is None else
              zint(offset) + 1 + tlsize(markers[key(self, 'encoded_length')]) > zint(wire.length)}

    def post(c, cx, result, self, val, markers, wire, offset):
        s = get_arg(A(self, 'signer'), markers)
        if s is None:
            return {'absent_is_zero': Eq(result, 0), 'frame': cx.frame(wire, offset, offset)}
        S = s.d['S']
        hdr = 1 + tlsize(S)
        vb = get_arg(A(self, 'value_buffer'), markers)
        st = get_arg(A(self, 'starting_point'), markers)
        cov = get_arg(A(self, 'covered_part'), markers)
        out = {'as_reserved': Eq(result, hdr + S),
               'type_byte': wire.at(cx.heap, offset) == zint(A(self, 'type_num')),
               'length_shortest': tlenc_at(cx.heap, wire, zint(offset) + 1, S),
               'only_header_written': cx.frame(wire, offset, simp(zint(offset) + hdr))}
        if not isinstance(vb, View):
            out['value_buffer_recorded'] = False
        else:
            # the buffer handed to the signer: the S bytes right after the header (clamped by the end of wire)
            out['value_buffer'] = And(Eq(vb.cell, wire.cell), Eq(vb.start, wire.start + offset + hdr),
                                      Eq(vb.length, If(zint(offset) + hdr + S <= zint(wire.length), S,
                                                       If(zint(offset) + hdr <= zint(wire.length), zint(wire.length) - zint(offset) - hdr, 0))))
        if st is not None:
            ok = isinstance(cov, list) and len(cov) >= 1 and isinstance(cov[-1], View)
            out['covered_range'] = ok and And(Eq(cov[-1].cell, wire.cell), Eq(cov[-1].start, wire.start + st),
                                               Eq(cov[-1].length, zint(offset) - zint(st)))
        wl = markers.get(key(self, 'wire_length'))
        out['length_byte_pointer'] = isinstance(wl, View) and And(Eq(wl.cell, wire.cell), Eq(wl.start, wire.start + offset + 1))
        return out

    def result(c, cx, self, val, markers, wire, offset):
        s = get_arg(A(self, 'signer'), markers)
        if s is None:
            return 0
        S = s.d['S']
        hdr = simp(1 + tlsize(S))
        st = get_arg(A(self, 'starting_point'), markers)
        if st is not None:
            get_arg(A(self, 'covered_part'), markers).append(
                View(wire.cell, simp(wire.start + st), simp(zint(offset) - zint(st)), 'memoryview', True))
        cx.run.havoc_range(wire, offset, hdr, 'sighdr')
        cx.run.assume(bytes_in_range(cx.heap, wire, offset, 10))
        markers[key(self, 'wire_length')] = View(wire.cell, simp(wire.start + offset + 1), 1, 'memoryview', True)
        vlen = cx.run.fresh_int('vblen')
        cx.run.assume(vlen == If(zint(offset) + hdr + S <= zint(wire.length), S,
                                 If(zint(offset) + hdr <= zint(wire.length), zint(wire.length) - zint(offset) - hdr, 0)))
        markers[arg_key(A(self, 'value_buffer'))] = View(wire.cell, simp(wire.start + offset + hdr), simp(vlen), 'memoryview', True)
        return simp(hdr + S)

    def post_assumed(c, cx, result, self, val, markers, wire, offset):
        s = get_arg(A(self, 'signer'), markers)
        if s is None:
            return {}
        return {'t': wire.at(cx.heap, offset) == zint(A(self, 'type_num')),
                'l': tlenc_at(cx.heap, wire, zint(offset) + 1, s.d['S'])}


@contract
class sigvalue_calculate_signature(_SigBase):
    fn = tm.SignatureValueField.calculate_signature
    exact_raises = True
    doc = ('calculate_signature hands the signer the recorded value buffer and covered list, records the unused tail S - r, '
           'and rewrites the single length byte to r when the signature is shorter (only possible when S < 253)')

    def setup(self, cx):
        self_, markers = self.mk_self(cx), {}
        has = self.mk_signer(cx, self_, markers)
        if has:
            S = markers[arg_key(A(self_, 'signer'))].d['S']
            markers[key(self_, 'encoded_length')] = S
            wire = cx.run.input_buf('wire', 'memoryview', True)
            off = cx.run.input_int('offset')
            cx.run.assume(And(off >= 0, off + 1 + tlsize(S) + S <= zint(wire.length)))
            cx.run.assume(tlenc_at(cx.run.heap, wire, off + 1, S))
            markers[key(self_, 'wire_length')] = View(wire.cell, simp(wire.start + off + 1), 1, 'memoryview', True)
            markers[arg_key(A(self_, 'value_buffer'))] = View(wire.cell, simp(wire.start + off + 1 + tlsize(S)), S, 'memoryview', True)
            markers[arg_key(A(self_, 'covered_part'))] = []
            cx.run.ghost['calc.wire'] = (wire, off)
        return dict(self=self_, markers=markers)

    def pre(c, cx, self, markers):
        s = get_arg(A(self, 'signer'), markers)
        if s is None:
            return True
        vb, wl = get_arg(A(self, 'value_buffer'), markers), markers.get(key(self, 'wire_length'))
        if not (isinstance(vb, View) and isinstance(wl, View) and key(self, 'encoded_length') in markers):
            return False
        S = s.d['S']
        return And(Eq(markers[key(self, 'encoded_length')], S), Eq(vb.length, S), Eq(wl.length, 1), wl.writable,
                   Eq(wl.cell, vb.cell), Eq(wl.start + tlsize(S), vb.start))

    raises = {ValueError: lambda cx, self, markers: False}       # refined below: needs the signer's answer (ghost)

    def normal_when(c, cx, **p):
        return True

    exact_raises = False
    raises = {ValueError: lambda cx, self, markers: (lambda s: False if s is None else zint(s.d['S']) >= 253)(get_arg(A(self, 'signer'), markers))}

    def post(c, cx, result, self, markers):
        s = get_arg(A(self, 'signer'), markers)
        if s is None:
            return {'nothing_to_do': cx.heap == cx.old_heap if False else True}
        S = s.d['S']
        signed = cx.run.ghost.get('signer.signed')
        if signed is None:
            return {'signer_called': False}
        contents, _, buf = signed
        r = next(t for n, k, t in cx.run.inputs if n == 'signer.r')
        vb = get_arg(A(self, 'value_buffer'), markers)
        wl = markers[key(self, 'wire_length')]
        return {'signer_got_value_buffer': buf is vb,
                'signer_got_covered_list': contents is get_arg(A(self, 'covered_part'), markers) or contents == get_arg(A(self, 'covered_part'), markers),
                'unused_tail_recorded': Eq(get_arg(A(self, 'shrink_len'), markers), S - r),
                'length_is_real_length': tlenc_at(cx.heap, wl, 0, r),
                'short_signature_only_if_one_byte_length': Implies(r != S, S < 253)}

    def xpost(c, cx, e, self, markers):
        signed = cx.run.ghost.get('signer.signed')
        if signed is None:
            return {'signer_called': False}
        r = next(t for n, k, t in cx.run.inputs if n == 'signer.r')
        s = get_arg(A(self, 'signer'), markers)
        return {'only_when_short_and_long_length': And(r != s.d['S'], s.d['S'] >= 253)}

    def result(c, cx, self, markers):
        s = get_arg(A(self, 'signer'), markers)
        if s is None:
            return None
        vb = get_arg(A(self, 'value_buffer'), markers)
        cov = get_arg(A(self, 'covered_part'), markers)
        r = cx.it.call(cx.it.getattr(s, 'write_signature_value'), [vb, cov], {}, None)
        S = s.d['S']
        markers[arg_key(A(self, 'shrink_len'))] = simp(S - r)
        cx.run.ghost['calc.r'] = r
        wl = markers[key(self, 'wire_length')]
        if cx.run.branch(r != S, 'short signature'):
            if cx.run.branch(S >= 253, 'long length'):
                raise PyExc(ValueError, ('Long signature with flexible length is not supported',), None, cx.it.where())
            cx.run.write(wl, 0, r)
        return None


# ----------------------------------------------------------------------------- ModelField.parse_from
class NestedClass:
    """the nested model class of a ModelField, known only through parse(): remembers what it was asked to parse, may raise
    any documented decoding error, and leaves the marker variables `fill` in the dictionary it is given"""

    def __init__(self, fill):
        self.fill, self.calls = fill, []

    def getattr_(self, it, name, node):
        if name != 'parse':
            raise Unsupported(f'nested model class attribute {name}')

        def parse(it_, wire, markers=None, ignore_critical=False):
            from contracts.model import PARSE_RAISES
            self.calls.append((wire, markers, ignore_critical))
            tag = it_.run.choose([('normal', True)] + [(e, True) for e in PARSE_RAISES], 'nested.parse')
            if tag != 'normal':
                raise PyExc(tag, ('nested TlvModel.parse (interface)',), getattr(node, 'lineno', None), it_.where())
            if markers is not None:
                for k, v in self.fill.items():
                    markers[k] = v
            return Opaque('fieldvalue', 'nested model')
        return _M(parse)


@contract
class modelfield_parse_from(Contract):
    fn = tm.ModelField.parse_from
    props = ('C07', 'C08')
    doc = ('ModelField.parse_from hands the nested model class exactly the Value bytes of the element (offset .. offset+length, '
           'given that the element lies inside its parent) and the criticality rule DECLARED for this field (ignore_critical '
           'as given to the constructor, nothing else); it returns what the nested parser returns, copies out exactly the '
           'marker variables of the declared copy-out fields, and raises only what the nested parser raises')

    def setup(self, cx):
        run = cx.run
        from contracts.model import PARSE_RAISES
        ck = run.choose([('no copy-out fields', True), ('one copy-out field', True)], 'copy_out')
        fill = {} if ck == 'no copy-out fields' else {'_sig##args': Opaque('token', 'm1'), '_sig##extra': Opaque('token', 'm2'),
                                                       '_other##args': Opaque('token', 'm3')}
        out_fields = [] if ck == 'no copy-out fields' else [SymObj(tm.ProcedureArgument, dict(name='_sig', default=None))]
        nested = NestedClass(fill)
        ic = run.input_bool('declared_ignore_critical')
        run.ghost['mf'] = dict(nested=nested, ic=ic, fill=fill)
        self_ = mk_field(cx, tm.ModelField, model_type=nested, copy_in_fields=[], copy_out_fields=out_fields, ignore_critical=ic)
        return dict(self=self_, instance=None, markers={}, wire=run.input_buf('wire', 'bytes'), offset=run.input_int('offset'),
                    length=run.input_int('length'), offset_btl=run.input_int('offset_btl'))

    raises = {e: (lambda cx, **p: True) for e in (tm.DecodeError, IndexError, ValueError, struct.error, UnicodeDecodeError)}

    def pre(c, cx, self, instance, markers, wire, offset, length, offset_btl):
        return And(zint(offset) >= 0, zint(length) >= 0, zint(offset) + zint(length) <= zint(wire.length))

    def post(c, cx, result, self, instance, markers, wire, offset, length, offset_btl):
        g = cx.run.ghost['mf']
        calls = g['nested'].calls
        out = {'nested_parser_called_once': len(calls) == 1}
        if len(calls) == 1:
            w, m, ic = calls[0]
            okw = isinstance(w, View)
            out['nested_parser_gets_exactly_the_value_bytes'] = okw and And(Eq(w.cell, wire.cell),
                                                                          Eq(zint(w.start), zint(wire.start) + zint(offset)),
                                                                          Eq(zint(w.length), zint(length)))
            out['nested_parser_gets_the_declared_criticality_rule'] = ic is g['ic']
            out['nested_markers_are_private'] = m is not markers
            out['returns_the_nested_model'] = isinstance(result, Opaque) and result.typ == 'fieldvalue'
            want = {k: v for k, v in g['fill'].items() if k.split('##')[0] == '_sig'}
            out['copies_out_exactly_the_declared_marker_variables'] = isinstance(markers, dict) and set(markers) == set(want) and \
                all(markers[k] is want[k] for k in want)
        return out
