#!/bin/bash
# Build /verif/.venv (python 3.12 from /venv) offline from the wheelhouse; adds /venv site-packages via .pth
set -e
cd "$(dirname "$0")"
if [ -x .venv/bin/python ] && .venv/bin/python -c "import z3, jsonschema, ndn" 2>/dev/null; then
  echo "setup: .venv already usable"; exit 0
fi
rm -rf .venv
/venv/bin/python -m venv .venv
PIP_NO_INDEX=1 .venv/bin/pip install -q --no-index --find-links /opt/veriftools/wheels \
    z3-solver cvc5 icontract deal crosshair-tool hypothesis jsonschema 2>&1 | grep -v WARNING || true
SP=$(.venv/bin/python -c "import site; print(site.getsitepackages()[0])")
echo "import site; site.addsitedir('/venv/lib/python3.12/site-packages')" > "$SP/zz_repo_deps.pth"
.venv/bin/python -c "import z3, cvc5, jsonschema, ndn, pygtrie, lark, Cryptodome; print('setup ok: z3', z3.get_version_string(), 'ndn from', ndn.__file__)"
